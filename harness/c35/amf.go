package main

// Structure-aware deviations of RTMP messages that carry AMF0 values (command and data messages): the message is
// decoded into its tree of AMF0 values and encoded again with ONE value replaced by each value of a small typed
// alphabet, removed, or repeated. The chunk layer is produced by gortmplib's raw message writer, so that every
// alternative is a well-formed message (sizes, counts, chunking all consistent): the deviation is in the structure
// of the values only - which is where the server's handlers make their assumptions.

import (
	"bytes"
	"encoding/binary"
	"fmt"
	"math"

	"github.com/bluenviron/gortmplib/pkg/bytecounter"
	"github.com/bluenviron/gortmplib/pkg/rawmessage"
)

type amfNode struct {
	marker byte       // 0x03 object, 0x08 ECMA array, 0x0A strict array; anything else: leaf
	raw    []byte     // leaf: the complete encoding
	keys   []string   // object / ECMA array
	kids   []*amfNode // object / ECMA array / strict array
}

// amfParse decodes one value of the subset of AMF0 that the seeds are written in.
func amfParse(d []byte) (*amfNode, int, error) {
	if len(d) == 0 {
		return nil, 0, fmt.Errorf("empty")
	}
	leaf := func(n int) (*amfNode, int, error) {
		if len(d) < n {
			return nil, 0, fmt.Errorf("short")
		}
		return &amfNode{marker: d[0], raw: append([]byte(nil), d[:n]...)}, n, nil
	}
	switch d[0] {
	case 0x00:
		return leaf(9)
	case 0x01:
		return leaf(2)
	case 0x02:
		if len(d) < 3 {
			return nil, 0, fmt.Errorf("short")
		}
		return leaf(3 + int(binary.BigEndian.Uint16(d[1:])))
	case 0x05, 0x06:
		return leaf(1)
	case 0x03, 0x08:
		n := &amfNode{marker: d[0]}
		p := 1
		if d[0] == 0x08 {
			p = 5
		}
		for {
			if p+3 > len(d) {
				return nil, 0, fmt.Errorf("short")
			}
			kl := int(binary.BigEndian.Uint16(d[p:]))
			if kl == 0 && d[p+2] == 0x09 {
				return n, p + 3, nil
			}
			if p+2+kl > len(d) {
				return nil, 0, fmt.Errorf("short")
			}
			key := string(d[p+2 : p+2+kl])
			p += 2 + kl
			kid, m, err := amfParse(d[p:])
			if err != nil {
				return nil, 0, err
			}
			n.keys = append(n.keys, key)
			n.kids = append(n.kids, kid)
			p += m
		}
	case 0x0A:
		if len(d) < 5 {
			return nil, 0, fmt.Errorf("short")
		}
		cnt := int(binary.BigEndian.Uint32(d[1:]))
		n := &amfNode{marker: 0x0A}
		p := 5
		for i := 0; i < cnt; i++ {
			kid, m, err := amfParse(d[p:])
			if err != nil {
				return nil, 0, err
			}
			n.kids = append(n.kids, kid)
			p += m
		}
		return n, p, nil
	}
	return nil, 0, fmt.Errorf("marker %02x", d[0])
}

func amfParseAll(d []byte) ([]*amfNode, error) {
	var out []*amfNode
	for len(d) > 0 {
		n, m, err := amfParse(d)
		if err != nil {
			return nil, err
		}
		out = append(out, n)
		d = d[m:]
	}
	return out, nil
}

// amfEdit is one deviation: the node target is replaced by rep (op 'r'), removed together with its key (op 'd') or
// written twice (op '2').
type amfEdit struct {
	target *amfNode
	op     byte
	rep    []byte
}

func (n *amfNode) copies(ed *amfEdit) int {
	if ed != nil && ed.target == n {
		switch ed.op {
		case 'd':
			return 0
		case '2':
			return 2
		}
	}
	return 1
}

func (n *amfNode) encode(b *bytes.Buffer, ed *amfEdit) {
	if ed != nil && ed.target == n && ed.op == 'r' {
		b.Write(ed.rep)
		return
	}
	switch n.marker {
	case 0x03, 0x08:
		b.WriteByte(n.marker)
		if n.marker == 0x08 {
			cnt := 0
			for _, k := range n.kids {
				cnt += k.copies(ed)
			}
			_ = binary.Write(b, binary.BigEndian, uint32(cnt))
		}
		for i, k := range n.kids {
			for c := k.copies(ed); c > 0; c-- {
				_ = binary.Write(b, binary.BigEndian, uint16(len(n.keys[i])))
				b.WriteString(n.keys[i])
				k.encode(b, nil2(ed, k))
			}
		}
		b.Write([]byte{0, 0, 9})
	case 0x0A:
		b.WriteByte(0x0A)
		cnt := 0
		for _, k := range n.kids {
			cnt += k.copies(ed)
		}
		_ = binary.Write(b, binary.BigEndian, uint32(cnt))
		for _, k := range n.kids {
			for c := k.copies(ed); c > 0; c-- {
				k.encode(b, nil2(ed, k))
			}
		}
	default:
		b.Write(n.raw)
	}
}

// nil2: the copies of a repeated node are encoded unchanged.
func nil2(ed *amfEdit, k *amfNode) *amfEdit {
	if ed != nil && ed.target == k && ed.op != 'r' {
		return nil
	}
	return ed
}

func amfEncodeAll(top []*amfNode, ed *amfEdit) []byte {
	var b bytes.Buffer
	for _, n := range top {
		for c := n.copies(ed); c > 0; c-- {
			n.encode(&b, nil2(ed, n))
		}
	}
	return b.Bytes()
}

// walk visits every value of the tree with a readable position label.
func (n *amfNode) walk(label string, f func(label string, n *amfNode)) {
	f(label, n)
	switch n.marker {
	case 0x03, 0x08:
		for i, k := range n.kids {
			k.walk(label+"."+n.keys[i], f)
		}
	case 0x0A:
		for i, k := range n.kids {
			k.walk(fmt.Sprintf("%s[%d]", label, i), f)
		}
	}
}

type amfAlpha struct {
	name string
	raw  []byte
}

func amfNum(v float64) []byte {
	b := make([]byte, 9)
	binary.BigEndian.PutUint64(b[1:], math.Float64bits(v))
	return b
}

func amfStr(s string) []byte {
	return append([]byte{0x02, byte(len(s) >> 8), byte(len(s))}, s...)
}

func cat(parts ...[]byte) []byte {
	var o []byte
	for _, p := range parts {
		o = append(o, p...)
	}
	return o
}

// the typed alphabet: one value (a few for numbers and strings) of every AMF0 type, containers empty, flat and nested
var amfAlphabet = func() []amfAlpha {
	objKV := cat([]byte{0x03, 0, 1, 'k'}, amfStr("v"), []byte{0, 0, 9})
	long := make([]byte, 66000) // longer than a short string can be and than one chunk
	for i := range long {
		long[i] = 'A' + byte(i%26)
	}
	lenBE := []byte{0, 1, 0x01, 0xD0} // 66000
	return []amfAlpha{
		{"number-1", amfNum(1)},
		{"number-neg", amfNum(-1)},
		{"number-huge", amfNum(1e300)},
		{"number-nan", amfNum(math.NaN())},
		{"bool-true", []byte{0x01, 0x01}},
		{"string-x", amfStr("x")},
		{"string-empty", amfStr("")},
		{"null", []byte{0x05}},
		{"undefined", []byte{0x06}},
		{"object-empty", []byte{0x03, 0, 0, 9}},
		{"object-kv", objKV},
		{"ecma-array-kv", cat([]byte{0x08, 0, 0, 0, 1, 0, 1, 'k'}, amfStr("v"), []byte{0, 0, 9})},
		{"strict-array-empty", []byte{0x0A, 0, 0, 0, 0}},
		{"strict-array-of-object", cat([]byte{0x0A, 0, 0, 0, 1}, objKV)},
		{"strict-array-nested", cat([]byte{0x0A, 0, 0, 0, 2, 0x0A, 0, 0, 0, 1}, amfStr("avc1"), amfStr("hvc1"))},
		{"date", cat([]byte{0x0B}, amfNum(1.7e12)[1:], []byte{0, 0})},
		{"long-string", cat([]byte{0x0C}, lenBE, long)},
		{"reference", []byte{0x07, 0, 0}},
	}
}()

// rtmpAddAlts adds, to every command/data message among msgs[from:] that is not Covered, the structure-aware
// alternatives. msgs[from:] must be a sequence of complete RTMP messages as written by one writer.
func rtmpAddAlts(seedName string, msgs []Msg, from int) {
	// decode the raw messages
	var stream bytes.Buffer
	for _, m := range msgs[from:] {
		stream.Write(m.Data)
	}
	br := bytecounter.NewReader(&stream)
	rd := rawmessage.NewReader(br, br, nil)
	raws := make([]*rawmessage.Message, 0, len(msgs)-from)
	for range msgs[from:] {
		rm, err := rd.Read()
		if err != nil {
			panic(fmt.Sprintf("rtmp seed %s: cannot decode its own messages: %v", seedName, err))
		}
		cp := *rm
		cp.Body = append([]byte(nil), rm.Body...)
		raws = append(raws, &cp)
		if rm.Type == 1 && len(rm.Body) >= 4 {
			if err = rd.SetChunkSize(binary.BigEndian.Uint32(rm.Body)); err != nil {
				panic(err)
			}
		}
	}
	// encode message k with another body, after the unchanged messages before it
	encodeAt := func(k int, body []byte) []byte {
		var out bytes.Buffer
		bw := bytecounter.NewWriter(&out)
		wr := rawmessage.NewWriter(bw, bw, false)
		for i := 0; i <= k; i++ {
			m := *raws[i]
			before := out.Len()
			if i == k {
				m.Body = body
			}
			if err := wr.Write(&m); err != nil {
				panic(fmt.Sprintf("rtmp seed %s: cannot encode an alternative: %v", seedName, err))
			}
			if m.Type == 1 && len(m.Body) >= 4 {
				wr.SetChunkSize(binary.BigEndian.Uint32(m.Body))
			}
			if i == k {
				return append([]byte(nil), out.Bytes()[before:]...)
			}
		}
		return nil
	}
	for k, rm := range raws {
		msg := &msgs[from+k]
		if msg.Covered || (rm.Type != 20 && rm.Type != 18) {
			continue
		}
		top, err := amfParseAll(rm.Body)
		if err != nil {
			panic(fmt.Sprintf("rtmp seed %s message %s: %v", seedName, msg.Name, err))
		}
		if got := encodeAt(k, amfEncodeAll(top, nil)); !bytes.Equal(got, msg.Data) {
			panic(fmt.Sprintf("rtmp seed %s message %s: the structural encoder does not reproduce the message", seedName, msg.Name))
		}
		for ti, t := range top {
			label := fmt.Sprintf("v%d", ti)
			if rm.Type == 20 {
				switch ti {
				case 0:
					label = "name"
				case 1:
					label = "id"
				default:
					label = fmt.Sprintf("arg%d", ti-2)
				}
			}
			t.walk(label, func(l string, n *amfNode) {
				var cur bytes.Buffer
				n.encode(&cur, nil)
				for _, a := range amfAlphabet {
					if bytes.Equal(a.raw, cur.Bytes()) {
						continue
					}
					msg.Alts = append(msg.Alts, Alt{Name: l + "=" + a.name, Data: encodeAt(k, amfEncodeAll(top, &amfEdit{target: n, op: 'r', rep: a.raw}))})
				}
				msg.Alts = append(msg.Alts, Alt{Name: l + ":removed", Data: encodeAt(k, amfEncodeAll(top, &amfEdit{target: n, op: 'd'}))})
				msg.Alts = append(msg.Alts, Alt{Name: l + ":twice", Data: encodeAt(k, amfEncodeAll(top, &amfEdit{target: n, op: '2'}))})
			})
		}
	}
}
