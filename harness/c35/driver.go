package main

import (
	"fmt"
	"os"
	"runtime"
	"sort"
	"strings"
	"sync"
	"sync/atomic"
	"time"

	"github.com/bluenviron/mediamtx/internal/zzverif/vcommon"
)

// finding is one attributed (or unattributed) worker death.
type finding struct {
	key      string
	what     string
	replay   map[string]any
	minID    int
	count    int
	attrib   bool
	culprits []string
}

type driver struct {
	r        *vcommon.Run
	deadline time.Time

	mu        sync.Mutex
	findings  map[string]*finding
	classes   map[string]int // listener|seed|mutkind|class -> count
	perListen map[string]int
	skipSeed  map[*Seed]bool // seeds that kill the worker unmutated: their mutants are not run

	deaths       atomic.Int64
	bisectRounds atomic.Int64
	unresponsive atomic.Int64
	skipped      atomic.Int64
	culprits     atomic.Int64
	timedOut     atomic.Bool
}

const maxCulprits = 60

func hexdump(b []byte) string {
	if len(b) > 4096 {
		return fmt.Sprintf("%x...(%d bytes)", b[:4096], len(b))
	}
	return fmt.Sprintf("%x", b)
}

func (d *driver) replayOf(e *Exchange, ci crashInfo) map[string]any {
	ws := e.Materialize(nil)
	var msgs []map[string]any
	for i, w := range ws {
		name := ""
		if i < len(e.Seed.Msgs) {
			name = e.Seed.Msgs[i].Name
		}
		msgs = append(msgs, map[string]any{"conn": w.Conn, "stream": w.Stream, "name": name, "hex": hexdump(w.Data), "text": vcommon.Short(printable(w.Data), 600)})
	}
	return map[string]any{
		"listener": e.Seed.Listener, "seed": e.Seed.Name, "transport": e.Seed.Transport, "port_index": e.Seed.Port,
		"mutation": e.Mut.String(), "exchange_id": e.ID, "tier": d.r.Tier, "messages": msgs, "then": "half-close / close",
		"worker_configuration": e.Seed.kind(d.r.Thorough()).String(),
		"crash":                ci.Text, "exit": ci.Exit,
		"how": "start the harness binary with -worker -base <port> -dir <tmpdir>" + map[bool]string{true: " -world open (anonymous clients may read the path 'live', which has a live stream, and publish below 'pub/')"}[e.Seed.Open] +
			", send the messages in order to 127.0.0.1:<port+port_index>" +
			map[bool]string{true: "; placeholders (" + echoNames(e.Seed) + ") are replaced by what the server answered before, as a client does"}[len(e.Seed.Echo) > 0] +
			map[bool]string{true: "; SRT: bytes 44..47 of the conclusion are replaced by the cookie of the server's induction answer before the mutation is applied", false: ""}[e.Seed.Transport == tSRT] +
			map[bool]string{true: " and, in the open world, bytes 40..43 of both packets (the client's socket id) by a value unique to the exchange"}[e.Seed.Transport == tSRT && e.Seed.Open],
	}
}

func echoNames(s *Seed) string {
	var n []string
	for _, e := range s.Echo {
		n = append(n, e.Placeholder)
	}
	return strings.Join(n, ", ")
}

func printable(b []byte) string {
	var sb strings.Builder
	for _, c := range b {
		switch {
		case c == '\r':
			sb.WriteString(`\r`)
		case c == '\n':
			sb.WriteString(`\n`)
		case c >= 0x20 && c < 0x7f:
			sb.WriteByte(c)
		default:
			fmt.Fprintf(&sb, `\x%02x`, c)
		}
	}
	return sb.String()
}

func (d *driver) record(key, what string, replay map[string]any, id int, attrib bool) {
	d.mu.Lock()
	defer d.mu.Unlock()
	f := d.findings[key]
	if f == nil {
		f = &finding{key: key, what: what, replay: replay, minID: id, attrib: attrib}
		d.findings[key] = f
	} else if attrib && (!f.attrib || id < f.minID) {
		f.what, f.replay, f.minID, f.attrib = what, replay, id, true
	}
	f.count++
	if attrib {
		f.culprits = append(f.culprits, what[strings.LastIndex(what, "after exchange ")+len("after exchange "):])
	}
}

// lane owns one worker at a time and runs its share of the exchanges.
type lane struct {
	d       *driver
	id      int
	w       *Worker
	kind    workerKind // the configuration the lane's worker must have for what it is running now
	tlsOK   bool       // the lane may run workers with TLS listeners (inotify instances are scarce)
	retired bool
}

func (l *lane) tryEnsure() error {
	if l.w != nil && l.w.alive() && l.w.kind == l.kind {
		return nil
	}
	if l.w != nil {
		l.w.kill()
		l.w = nil
	}
	w, err := startWorker(l.kind)
	if err != nil {
		return err
	}
	l.w = w
	if rtsp, api := w.probe(30 * time.Second); !rtsp || !api {
		return fmt.Errorf("fresh worker does not answer the probe (rtsp=%v api=%v): %s", rtsp, api, readFileTail(w.stderr, 500))
	}
	return nil
}

func (l *lane) ensure() {
	if err := l.tryEnsure(); err != nil {
		harnessFail("cannot start a worker: %v", err)
	}
}

func (l *lane) restart() {
	if l.w != nil {
		l.w.kill()
		l.w = nil
	}
	l.ensure()
}

// runSet delivers a set of exchanges concurrently to the lane's worker; returns false if the worker died.
func (l *lane) runSet(set []*Exchange, o execOpts, count bool) bool {
	ok, _ := l.runSet2(set, o, count)
	return ok
}

// runSet2 also reports, when the worker died, which exchanges had been ended by the server itself clearly before
// the death (they cannot be the cause).
func (l *lane) runSet2(set []*Exchange, o execOpts, count bool) (bool, []bool) {
	w := l.w
	doneAt := make([]time.Time, len(set))
	closed := make([]bool, len(set))
	var wg sync.WaitGroup
	sem := make(chan struct{}, 384)
	// datagram transports have no flow control: a burst overflows the listener's backlog (gosrt: 128 packets) and the
	// packet would be dropped unseen, so they are delivered with a small concurrency
	semUDP := make(chan struct{}, 40)
	// SRT connections that the server accepts (open world) each reserve ~128 MB of address space in gosrt: few at a
	// time, so that the worker's address space limit keeps measuring what one input makes the server allocate
	semSRTOpen := make(chan struct{}, 12)
	udpLike := false
	var cmu sync.Mutex
	local := map[string]int{}
	defer func() {
		// answer classes are only kept for sets the worker survived (the others are delivered again)
		if count && w.alive() {
			l.d.mu.Lock()
			for k, n := range local {
				l.d.classes[k] += n
			}
			l.d.mu.Unlock()
		}
	}()
	for idx, e := range set {
		if !w.alive() {
			break
		}
		mySem := sem
		if e.Seed.Transport != tTCP && e.Seed.Transport != tTLS {
			udpLike = true
			mySem = semUDP
			if e.Seed.Transport == tSRT && e.Seed.Open {
				mySem = semSRTOpen
			}
		}
		mySem <- struct{}{}
		wg.Add(1)
		go func(idx int, e *Exchange) {
			defer wg.Done()
			defer func() { <-mySem }()
			t0 := time.Now()
			cl, cls := runExchange(e, w.ports, o)
			if os.Getenv("C35_TRACE") == "2" && time.Since(t0) > 4*time.Second {
				fmt.Printf("TRACE-SLOW %.1fs %s -> %s\n", time.Since(t0).Seconds(), e, cl)
			}
			for attempt := 0; attempt < 3 && strings.Contains(cl, "dial-error") && w.alive(); attempt++ {
				// the connection could not even be established (overload): deliver again
				time.Sleep(time.Duration(100*(attempt+1)) * time.Millisecond)
				cl, cls = runExchange(e, w.ports, o)
			}
			closed[idx] = cls
			doneAt[idx] = time.Now()
			if count {
				cmu.Lock()
				local[e.Seed.Listener+"|"+e.Seed.Name+"|"+mutNames[e.Mut.Kind]+"|"+cl]++
				cmu.Unlock()
			}
		}(idx, e)
	}
	wg.Wait()
	if udpLike && w.alive() {
		time.Sleep(200 * time.Millisecond)
	}
	cleared := func() []bool {
		<-w.dead
		c := make([]bool, len(set))
		for i := range set {
			c[i] = closed[i] && !doneAt[i].IsZero() && doneAt[i].Before(w.deadAt.Add(-150*time.Millisecond))
		}
		return c
	}
	if !w.alive() {
		return false, cleared()
	}
	if os.Getenv("C35_TRACE") == "3" && w.cmd != nil && w.cmd.Process != nil {
		if b, err := os.ReadFile(fmt.Sprintf("/proc/%d/status", w.cmd.Process.Pid)); err == nil {
			var keep []string
			for _, ln := range strings.Split(string(b), "\n") {
				if strings.HasPrefix(ln, "VmPeak") || strings.HasPrefix(ln, "VmHWM") || strings.HasPrefix(ln, "VmSize") || strings.HasPrefix(ln, "VmRSS") || strings.HasPrefix(ln, "Threads") {
					keep = append(keep, strings.Join(strings.Fields(ln), ""))
				}
			}
			fmt.Printf("TRACE-MEM %s after %d exchanges from %s: %s\n", w.kind, len(set), set[0], strings.Join(keep, " "))
		}
	}
	rtsp, api := w.probe(25 * time.Second)
	if !w.alive() {
		return false, cleared()
	}
	if !rtsp || !api {
		// alive but not answering: not what the property forbids; noted, the worker is replaced
		l.d.unresponsive.Add(1)
		l.d.r.Note("worker alive but probe unanswered (rtsp=%v api=%v) after a set starting with %s; worker replaced", rtsp, api, set[0])
		l.restart()
	}
	return true, nil
}

func (l *lane) recordCulprit(e *Exchange, ci crashInfo) {
	l.d.culprits.Add(1)
	what := fmt.Sprintf("listener %s: %s: %s at %s (%s) after exchange %s", e.Seed.Listener, ci.Kind, ci.Msg, ci.Site, ci.Exit, e)
	l.d.record(ci.key(e.Seed.Listener), what, l.d.replayOf(e, ci), e.ID, true)
	if e.Mut.Kind == mSeed {
		l.d.mu.Lock()
		l.d.skipSeed[e.Seed] = true
		l.d.mu.Unlock()
	}
}

func (l *lane) recordUnattributed(set []*Exchange, ci crashInfo, why string) {
	ids := make([]int, 0, len(set))
	for _, e := range set {
		ids = append(ids, e.ID)
	}
	listener := "unattributed"
	same := true
	for _, e := range set {
		if e.Seed.Listener != set[0].Seed.Listener {
			same = false
		}
	}
	if same {
		listener = "unattributed:" + set[0].Seed.Listener
	}
	l.d.record(ci.key(listener), fmt.Sprintf("worker died (%s: %s at %s) while a set of %d exchanges was delivered; %s",
		ci.Kind, ci.Msg, ci.Site, len(set), why), map[string]any{"crash": ci.Text, "exchange_ids": ids, "first": set[0].String(), "tier": l.d.r.Tier}, set[0].ID, false)
}

// findFast returns the exchanges of set that kill a fresh worker on their own (twice) when delivered with the short
// drain time. Sets that survive are NOT considered delivered (the short drain may cut an exchange short).
func (l *lane) findFast(set []*Exchange) []*Exchange {
	if len(set) == 0 || time.Now().After(l.d.deadline) || l.d.culprits.Load() >= maxCulprits {
		return nil
	}
	l.ensure()
	l.d.bisectRounds.Add(1)
	if l.runSet(set, fastOpts, false) {
		return nil
	}
	if len(set) == 1 {
		l.restart()
		if l.runSet(set, fastOpts, false) {
			return nil
		}
		l.recordCulprit(set[0], parseCrash(l.w))
		return []*Exchange{set[0]} // a fresh slice: the caller appends to it
	}
	half := len(set) / 2
	var out []*Exchange
	out = append(out, l.findFast(set[:half])...)
	out = append(out, l.findFast(set[half:])...)
	return out
}

// process delivers a set with the full drain time; a set the worker survives is done. When the worker dies the
// culprits are first searched with short deliveries (findFast) and the rest of the set is processed again; if that
// finds nothing the set is split and both halves are processed with full deliveries. Every exchange therefore ends
// up delivered to a worker that survives it, or identified as one that kills two fresh workers in a row, or (deadline,
// budget, not reproducible) listed in an unattributed violation. It returns the number of findings recorded.
func (l *lane) process(set []*Exchange, slow bool) int {
	if len(set) == 0 {
		return 0
	}
	if time.Now().After(l.d.deadline) {
		l.d.timedOut.Store(true)
		l.d.skipped.Add(int64(len(set)))
		return 0
	}
	l.ensure()
	ok, cleared := l.runSet2(set, normalOpts, true)
	if ok {
		l.d.r.Eval(len(set))
		return 0
	}
	// the worker died
	l.d.deaths.Add(1)
	ci := parseCrash(l.w)
	if time.Now().After(l.d.deadline) || l.d.culprits.Load() >= maxCulprits {
		l.d.timedOut.Store(true)
		l.d.skipped.Add(int64(len(set)))
		l.recordUnattributed(set, ci, "not narrowed down (internal deadline or attribution budget reached)")
		return 1
	}
	if len(set) == 1 {
		e := set[0]
		l.restart()
		if l.runSet(set, normalOpts, false) {
			l.d.r.Eval(1)
			l.recordUnattributed(set, ci, "it did not die when the exchange was delivered again")
			return 1
		}
		l.recordCulprit(e, parseCrash(l.w))
		l.d.r.Eval(1)
		return 1
	}
	if !slow {
		// first among the exchanges that were still in flight when the worker died, then in the whole set
		var inflight []*Exchange
		for i, e := range set {
			if !cleared[i] {
				inflight = append(inflight, e)
			}
		}
		var found []*Exchange
		if len(inflight) < len(set) {
			found = l.findFast(inflight)
		}
		if len(found) == 0 {
			found = l.findFast(set)
		}
		if len(found) > 0 {
			l.d.r.Eval(len(found))
			isFound := map[*Exchange]bool{}
			for _, e := range found {
				isFound[e] = true
			}
			var rest []*Exchange
			for _, e := range set {
				if !isFound[e] {
					rest = append(rest, e)
				}
			}
			return len(found) + l.process(rest, false)
		}
	}
	half := len(set) / 2
	n := l.process(set[:half], true)
	n += l.process(set[half:], true)
	if n == 0 {
		if l.d.timedOut.Load() {
			l.recordUnattributed(set, ci, "not narrowed down (internal deadline reached)")
		} else {
			l.recordUnattributed(set, ci, "neither half reproduces it")
		}
		n = 1
	}
	return n
}

// runChunk runs a chunk to completion, attributing every death to one exchange. It returns false when the lane could
// not obtain a worker before anything of the chunk was run (the chunk is then given to another lane).
func (l *lane) runChunk(chunk []*Exchange, kind workerKind) bool {
	l.kind = kind
	if err := l.tryEnsure(); err != nil {
		l.d.r.Note("lane %d retired: %v", l.id, err)
		return false
	}
	// drop mutants of seeds already known to crash unmutated
	l.d.mu.Lock()
	var keep []*Exchange
	for _, e := range chunk {
		if l.d.skipSeed[e.Seed] && e.Mut.Kind != mSeed {
			l.d.skipped.Add(1)
			continue
		}
		keep = append(keep, e)
	}
	l.d.mu.Unlock()
	t0 := time.Now()
	l.process(keep, false)
	if os.Getenv("C35_TRACE") != "" && len(keep) > 0 {
		fmt.Printf("TRACE lane %d %s: %d exchanges from %s in %.1fs (at %.1fs)\n", l.id, kind, len(keep), keep[0], time.Since(t0).Seconds(), time.Since(startTime).Seconds())
	}
	return true
}

func allSeeds(thorough bool) []*Seed {
	var all []*Seed
	all = append(all, rtspSeeds("rtsp", pRTSP, tTCP, false)...)
	all = append(all, rtmpSeeds("rtmp", pRTMP, tTCP, false)...)
	all = append(all, hlsSeeds()...)
	all = append(all, webrtcSeeds()...)
	all = append(all, apiSeeds()...)
	all = append(all, metricsSeeds()...)
	all = append(all, pprofSeeds()...)
	all = append(all, playbackSeeds()...)
	all = append(all, rtspsSeeds()...)
	for _, s := range rtmpSeeds("rtmps", pRTMPS, tTLS, true) {
		// through TLS only the application messages are mutated again (the handshake bytes are opaque to both)
		if s.Name == "play" {
			for i := 0; i < 6; i++ {
				s.Msgs[i].Covered = true
			}
			all = append(all, s)
		}
	}
	all = append(all, moqHTTPSeeds()...)
	all = append(all, srtSeeds()...)
	all = append(all, udpSeeds()...)
	all = append(all, moqSeeds()...)
	all = append(all, openSeeds()...)
	var out []*Seed
	for _, s := range all {
		if s.Thorough && !thorough {
			continue
		}
		out = append(out, s)
	}
	return out
}

func driverMain() {
	r := vcommon.Start("C35", "exploration")
	thorough := r.Thorough()
	d := &driver{r: r, findings: map[string]*finding{}, classes: map[string]int{}, perListen: map[string]int{}, skipSeed: map[*Seed]bool{}}
	budget := 70 * time.Second
	if thorough {
		budget = 14 * time.Minute
	}
	if *flagBudget > 0 {
		budget = time.Duration(*flagBudget) * time.Second
	}
	d.deadline = time.Now().Add(budget)

	var err error
	scratchDir, err = os.MkdirTemp("", "verif-c35-")
	if err != nil {
		vcommon.Harness("mkdtemp: %v", err)
	}
	defer os.RemoveAll(scratchDir)

	alphabet := []byte{0x00, 0xFF, 0x0A, 0x20}
	stride := 1
	if !thorough {
		alphabet = []byte{0x00, 0xFF}
		stride = 64
	}
	seeds := allSeeds(thorough)
	if *flagOnly != "" {
		var f []*Seed
		for _, s := range seeds {
			if neg := strings.TrimPrefix(*flagOnly, "!"); (neg == *flagOnly) == strings.Contains(s.Listener+"/"+s.Name, neg) {
				f = append(f, s) // "-only !x" = every seed but those containing x
			}
		}
		seeds = f
	}
	// phase 0 = every seed unmutated; phase 1 = the mutants, interleaved over the seeds of one worker configuration so
	// that every lane talks to every listener
	type kindList struct {
		kind    workerKind
		perSeed [][]*Exchange
	}
	var kinds []*kindList
	kindOf := map[workerKind]*kindList{}
	var phase0 []*Exchange
	id := 0
	nAlt := 0
	for _, s := range seeds {
		k := s.kind(thorough)
		kl := kindOf[k]
		if kl == nil {
			kl = &kindList{kind: k}
			kindOf[k] = kl
			kinds = append(kinds, kl)
		}
		var mine []*Exchange
		enumerate(s, alphabet, stride, !thorough, func(m Mut) {
			e := &Exchange{ID: id, Seed: s, Mut: m}
			id++
			if m.Kind == mAlt {
				nAlt++
			}
			if m.Kind == mSeed {
				phase0 = append(phase0, e)
			} else if *flagMut == "" || strings.Contains(m.String(), *flagMut) {
				mine = append(mine, e)
			}
		})
		kl.perSeed = append(kl.perSeed, mine)
	}
	// a chunk is a set of exchanges for one worker configuration
	type chunk struct {
		kind workerKind
		ex   []*Exchange
	}
	var chunks0, chunks1 []*chunk
	for _, e := range phase0 {
		chunks0 = append(chunks0, &chunk{kind: e.Seed.kind(thorough), ex: []*Exchange{e}})
		d.perListen[e.Seed.Listener+map[bool]string{true: "@open"}[e.Seed.Open]]++
	}
	nPhase1 := 0
	perWorld := map[string]int{}
	for _, kl := range kinds {
		var list []*Exchange
		for k := 0; ; k++ {
			any := false
			for si := range kl.perSeed {
				if k < len(kl.perSeed[si]) {
					list = append(list, kl.perSeed[si][k])
					any = true
				}
			}
			if !any {
				break
			}
		}
		for _, e := range list {
			d.perListen[e.Seed.Listener+map[bool]string{true: "@open"}[e.Seed.Open]]++
		}
		nPhase1 += len(list)
		perWorld[kl.kind.String()] += len(list)
		for lo := 0; lo < len(list); lo += *flagChunk {
			hi := lo + *flagChunk
			if hi > len(list) {
				hi = len(list)
			}
			chunks1 = append(chunks1, &chunk{kind: kl.kind, ex: list[lo:hi]})
		}
	}
	for _, e := range phase0 {
		perWorld[e.Seed.kind(thorough).String()]++
	}
	total := len(phase0) + nPhase1

	// every TLS listener of a worker costs two inotify instances (certificate watchers), a per-user resource (128):
	// the quick tier runs workers without them, except a few lanes whose workers get the RTSPS listener for the seeds
	// that need it; the thorough tier uses fewer, fuller workers
	nl := *flagLanes
	if nl <= 0 {
		nl = 2 * runtime.GOMAXPROCS(0)
		if nl > 32 {
			nl = 32
		}
		if thorough && nl > 10 {
			nl = 10
		}
	}
	tlsLanes := nl
	if !thorough && tlsLanes > 6 {
		tlsLanes = 6
	}
	lanes := make([]*lane, nl)
	for i := range lanes {
		lanes[i] = &lane{d: d, id: i, tlsOK: i < tlsLanes}
	}
	defer func() {
		for _, l := range lanes {
			if l.w != nil {
				l.w.kill()
			}
		}
	}()

	fmt.Printf("C35 %s: %d seeds, %d exchanges (%d unmutated + %d single-deviation mutants, %d of them structure-aware), %d lanes, per worker configuration %v\n",
		r.Tier, len(seeds), total, len(phase0), nPhase1, nAlt, nl, perWorld)

	var retired atomic.Int64
	// runPhase hands the chunks out to the lanes. A lane prefers chunks for the configuration its worker already has
	// (a change of configuration is a worker restart); lanes that may hold TLS listeners take the chunks that need
	// them first.
	runPhase := func(list []*chunk) {
		var qmu sync.Mutex
		pending := append([]*chunk(nil), list...)
		var remaining atomic.Int64
		remaining.Store(int64(len(list)))
		var busy atomic.Int64
		take := func(l *lane) *chunk {
			qmu.Lock()
			defer qmu.Unlock()
			score := func(c *chunk) int {
				switch {
				case c.kind.TLS > 0 && !l.tlsOK:
					return 0
				case c.kind.TLS > 0 && !thorough:
					return 3
				case l.w != nil && c.kind == l.w.kind:
					return 2
				}
				return 1
			}
			best, bs := -1, 0
			for i, c := range pending {
				if sc := score(c); sc > bs {
					best, bs = i, sc
				}
			}
			if best < 0 {
				return nil
			}
			c := pending[best]
			pending = append(pending[:best], pending[best+1:]...)
			busy.Add(1)
			return c
		}
		var wg sync.WaitGroup
		for _, l := range lanes {
			if l.retired {
				continue
			}
			wg.Add(1)
			go func(l *lane) {
				defer wg.Done()
				for remaining.Load() > 0 {
					c := take(l)
					if c == nil {
						if busy.Load() == 0 {
							return // what is left cannot be run by this lane and nobody will add to it
						}
						time.Sleep(100 * time.Millisecond)
						continue
					}
					if !l.runChunk(c.ex, c.kind) {
						qmu.Lock()
						pending = append(pending, c)
						qmu.Unlock()
						busy.Add(-1)
						l.retired = true
						if int(retired.Add(1)) == len(lanes) {
							harnessFail("no lane can start a worker any more")
						}
						return
					}
					remaining.Add(-1)
					busy.Add(-1)
				}
			}(l)
		}
		wg.Wait()
		if remaining.Load() > 0 {
			// the lanes that may run these chunks have retired
			harnessFail("%d chunks could not be given to any lane (the lanes allowed to hold TLS listeners cannot start workers)", remaining.Load())
		}
	}

	// phase 0: every seed unmutated, one by one (a seed that kills the worker is identified at once and its mutants
	// are not run)
	runPhase(chunks0)
	fmt.Printf("C35: phase 0 done, %d deaths so far, %.1fs\n", d.deaths.Load(), time.Since(startTime).Seconds())

	// phase 1: chunks of mutants handed out to the lanes
	runPhase(chunks1)
	r.Set("lanes_retired", retired.Load())
	r.Set("structure_aware_mutants", nAlt)
	r.Set("exchanges_per_worker_configuration", perWorld)
	phase1 := make([]*Exchange, 0, nPhase1)
	for _, c := range chunks1 {
		phase1 = append(phase1, c.ex...)
	}

	if *flagShow {
		var ks []string
		for k, n := range d.classes {
			ks = append(ks, fmt.Sprintf("%s x%d", k, n))
		}
		sort.Strings(ks)
		for _, k := range ks {
			fmt.Println("CLASS", k)
		}
	}
	// ---- evidence ----
	respClasses := map[string]bool{}
	for k, n := range d.classes {
		_ = n
		parts := strings.SplitN(k, "|", 4)
		cl := parts[3]
		if strings.Contains(cl, "dial-error") {
			continue
		}
		r.Distinct(k)
		respClasses[parts[0]+"|"+cl] = true
	}
	var rc []string
	for k := range respClasses {
		rc = append(rc, k)
	}
	sort.Strings(rc)
	if len(rc) > 400 {
		rc = rc[:400]
	}
	dialErrs := 0
	dialByListener := map[string]int{}
	for k, n := range d.classes {
		if strings.Contains(k, "dial-error") {
			dialErrs += n
			dialByListener[strings.SplitN(k, "|", 2)[0]] += n
		}
	}
	r.Rule = "case = (world: closed = nobody is authorized | open = anonymous clients may read a path with a live two-track stream and publish below a prefix; " +
		"listener; valid seed exchange of a client without credentials; one single deviation: truncation at an offset | one byte set to a value of the byte alphabet | " +
		"one length-like field set to a boundary value | one header line duplicated/emptied/deleted | two messages swapped | one message sent twice | " +
		"structure-aware: one AMF0 value of an RTMP command/data message replaced by each value of a typed alphabet (" + fmt.Sprint(len(amfAlphabet)) + " values: numbers, bool, strings, null, undefined, " +
		"objects, ECMA array, strict arrays empty/of object/nested, date, long string, reference), removed or repeated | none); " +
		"distinct = (listener, seed, mutation kind, answer class of the server: status codes / handshake stage / answer size / streaming)"
	r.Set("seeds", len(seeds))
	r.Set("exchanges_enumerated", total)
	r.Set("per_listener", d.perListen)
	r.Set("byte_alphabet", fmt.Sprintf("%x", alphabet))
	r.Set("opaque_filler_stride", stride)
	r.Set("worker_processes_spawned", spawned.Load())
	r.Set("worker_deaths", d.deaths.Load())
	r.Set("bisect_rounds", d.bisectRounds.Load())
	r.Set("probe_unanswered_while_alive", d.unresponsive.Load())
	r.Set("exchanges_not_run", d.skipped.Load())
	r.Set("dial_errors", dialErrs)
	if dialErrs > 0 {
		r.Set("dial_errors_by_listener", dialByListener)
	}
	r.Set("answer_classes", rc)
	r.Set("lanes", nl)
	for i, e := range phase0 {
		if i%7 == 0 {
			r.Sample(e.String())
		}
	}
	for i := 0; i < len(phase1) && i < 4000; i += 997 {
		r.Sample(phase1[i].String())
	}
	r.Assumptions = []string{
		"exhaustive only over the stated single-deviation mutation alphabet applied to the listed seed exchanges; not over all byte streams",
		"closed world: no client is authorized (the only configured user has a secret the driver never sends); open world: clients without credentials may read the path 'live' " +
			"(kept live by an RTSP publisher inside the worker: H264 + Opus, 10 frames/s) and publish/read below 'pub/'; API, metrics, pprof and playback need the secret in both",
		"values a client takes from the server's answers (RTSP session id, HLS session/playlist/segment names, WHIP/WHEP session URL, SRT cookie) are echoed into the following messages; the MIKEY message of SRTP SETUPs carries the current time",
		"the server runs with GOMAXPROCS=4 and RLIMIT_AS " + fmt.Sprint(workerMem) + " MB; a death by memory exhaustion under that limit is reported as a crash",
		"QUIC/TLS/DTLS record-level malformation is not enumerated (it exercises quic-go / crypto/tls / pion, only complete non-QUIC datagrams are sent to those sockets); MoQ messages are mutated inside real QUIC and WebTransport streams",
		"RTSP multicast is not enabled (no multicast-capable interface is assumed)",
		"only a death of the server process is a violation; a worker that is alive but does not answer the probe is noted and replaced",
	}
	skipped := d.skipped.Load()
	r.Exhaustive = !d.timedOut.Load() && skipped == 0 && d.culprits.Load() < maxCulprits
	if d.timedOut.Load() {
		r.Note("internal deadline reached: %d exchanges not run", skipped)
	}
	if dialErrs > 0 {
		r.Exhaustive = false
		r.Note("%d exchanges could not be delivered (connection not established after 4 attempts)", dialErrs)
	}
	if dialErrs > total/50 {
		harnessFail("%d of %d exchanges could not connect to the worker (overload?); the run is not conclusive", dialErrs, total)
	}
	d.mu.Lock()
	culpritLists := map[string][]string{}
	for _, f := range d.findings {
		for i := 0; i < f.count; i++ {
			r.Violation(f.key, f.what, f.replay)
		}
		sort.Strings(f.culprits)
		if f.culprits == nil {
			f.culprits = []string{}
		}
		culpritLists[f.key] = f.culprits
	}
	if len(culpritLists) > 0 {
		r.Set("culprit_exchanges", culpritLists)
	}
	var sk []string
	for s := range d.skipSeed {
		sk = append(sk, s.Listener+"/"+s.Name)
	}
	d.mu.Unlock()
	sort.Strings(sk)
	if len(sk) > 0 {
		r.Set("seeds_crashing_unmutated_mutants_skipped", sk)
	}
	for _, l := range lanes {
		if l.w != nil {
			l.w.kill()
			l.w = nil
		}
	}
	_ = os.RemoveAll(scratchDir)
	r.Finish()
}

var startTime = time.Now()

// harnessFail removes the scratch directory (the workers exit when their stdin closes with this process) and
// reports a harness error.
func harnessFail(format string, a ...any) {
	if scratchDir != "" {
		_ = os.RemoveAll(scratchDir)
	}
	vcommon.Harness(format, a...)
}
