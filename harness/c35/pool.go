package main

import (
	"bufio"
	"bytes"
	"fmt"
	"net"
	"os"
	"os/exec"
	"path/filepath"
	"regexp"
	"strings"
	"sync"
	"sync/atomic"
	"time"
)

// Worker is one server process.
type Worker struct {
	cmd    *exec.Cmd
	ports  Ports
	dir    string
	stdin  interface{ Close() error }
	dead   chan struct{} // closed when the process has exited
	state  *os.ProcessState
	deadAt time.Time
	stderr string // path
	stdout *lockedBuf
	kind   workerKind
}

type lockedBuf struct {
	mu sync.Mutex
	b  bytes.Buffer
}

func (l *lockedBuf) add(s string) {
	l.mu.Lock()
	if l.b.Len() < 1<<16 {
		l.b.WriteString(s)
	}
	l.mu.Unlock()
}

func (l *lockedBuf) String() string {
	l.mu.Lock()
	defer l.mu.Unlock()
	return l.b.String()
}

var (
	portMu     sync.Mutex
	portNext   int
	portFirst  int
	scratchDir string
	workerMoQ  = true
	// address space limit of a worker in MB. A worker with every listener starts at ~1.9 GB and stays below ~2.4 GB
	// under 384 concurrent exchanges; 5 GB leaves that room and makes ONE input that has the server allocate 4 GiB
	// (gosrt, MTU field of an accepted SRT handshake) fatal on its own, so that the death is attributable to one exchange
	workerMem = 5120
	spawned   atomic.Int64
)

const portBlock = 24
const portLo, portHi = 10000, 31000

func nextPortBase() int {
	portMu.Lock()
	defer portMu.Unlock()
	if portNext == 0 {
		portNext = portLo + (os.Getpid()*7919)%(portHi-portLo-portBlock)
		portNext -= portNext % 2 // the RTP port must be even
		portFirst = portNext
	}
	b := portNext
	portNext += portBlock
	if portNext+portBlock >= portHi {
		portNext = portLo
	}
	return b
}

// startWorker spawns a worker on a free port block and waits until it is ready.
func startWorker(kind workerKind) (*Worker, error) {
	var lastErr error
	for attempt := 0; attempt < 40; attempt++ {
		base := nextPortBase()
		dir, err := os.MkdirTemp(scratchDir, "w")
		if err != nil {
			return nil, err
		}
		w := &Worker{ports: Ports{Base: base}, dir: dir, dead: make(chan struct{}), stdout: &lockedBuf{}, kind: kind}
		w.stderr = filepath.Join(dir, "stderr.txt")
		ef, err := os.Create(w.stderr)
		if err != nil {
			return nil, err
		}
		cmd := exec.Command(os.Args[0], "-worker", "-base", fmt.Sprint(base), "-dir", dir,
			fmt.Sprintf("-moq=%v", workerMoQ), fmt.Sprintf("-tls=%v", kind.TLS == 2), fmt.Sprintf("-rtsps=%v", kind.TLS == 1),
			"-world", map[bool]string{false: "closed", true: "open"}[kind.Open], "-mem", fmt.Sprint(workerMem))
		cmd.Stderr = ef
		cmd.Env = append(os.Environ(), "GOMAXPROCS=4", "GOTRACEBACK=all")
		so, err := cmd.StdoutPipe()
		if err != nil {
			return nil, err
		}
		si, err := cmd.StdinPipe()
		if err != nil {
			return nil, err
		}
		if err = cmd.Start(); err != nil {
			ef.Close()
			return nil, err
		}
		spawned.Add(1)
		ef.Close()
		w.cmd = cmd
		w.stdin = si
		ready := make(chan bool, 1)
		go func() {
			sc := bufio.NewScanner(so)
			sc.Buffer(make([]byte, 1<<16), 1<<20)
			sent := false
			for sc.Scan() {
				line := sc.Text()
				w.stdout.add(line + "\n")
				if !sent && strings.HasPrefix(line, "WORKER-READY") {
					ready <- true
					sent = true
				}
				if !sent && strings.HasPrefix(line, "WORKER-STARTFAIL") {
					ready <- false
					sent = true
				}
			}
			if !sent {
				ready <- false
			}
			_ = cmd.Wait()
			w.state = cmd.ProcessState
			w.deadAt = time.Now()
			close(w.dead)
		}()
		select {
		case ok := <-ready:
			if ok {
				return w, nil
			}
			lastErr = fmt.Errorf("worker did not start on port block %d: %s", base, vshort(w.stdout.String()+readFileTail(w.stderr, 400), 600))
		case <-time.After(60 * time.Second):
			lastErr = fmt.Errorf("worker start timeout")
		}
		w.kill()
		if lastErr != nil && strings.Contains(lastErr.Error(), "inotify") {
			// inotify instances are exhausted (other processes of this user hold them): wait for some to be released
			time.Sleep(1500 * time.Millisecond)
		}
	}
	return nil, lastErr
}

func vshort(s string, n int) string {
	if len(s) > n {
		return s[:n]
	}
	return s
}

func readFileTail(p string, n int) string {
	b, err := os.ReadFile(p)
	if err != nil {
		return ""
	}
	if len(b) > n {
		b = b[:n]
	}
	return string(b)
}

func (w *Worker) alive() bool {
	select {
	case <-w.dead:
		return false
	default:
		return true
	}
}

func (w *Worker) kill() {
	if w == nil {
		return
	}
	if w.cmd != nil && w.cmd.Process != nil {
		_ = w.cmd.Process.Kill()
	}
	if w.stdin != nil {
		_ = w.stdin.Close()
	}
	select {
	case <-w.dead:
	case <-time.After(5 * time.Second):
	}
	_ = os.RemoveAll(w.dir)
}

// probe: an RTSP OPTIONS round trip and an API request (answered 401) on the worker. It retries while the process is
// alive: only the death of the process is a violation.
func (w *Worker) probe(max time.Duration) (rtsp, api bool) {
	deadline := time.Now().Add(max)
	for {
		if !rtsp {
			rtsp = roundTrip(w.ports.addr(pRTSP), "OPTIONS rtsp://127.0.0.1/probe RTSP/1.0\r\nCSeq: 1\r\n\r\n", "RTSP/1.0 200")
		}
		if !api {
			api = roundTrip(w.ports.addr(pAPI), "GET /v3/paths/list HTTP/1.1\r\nHost: probe\r\nConnection: close\r\n\r\n", "HTTP/1.1 401")
		}
		if (rtsp && api) || !w.alive() || time.Now().After(deadline) {
			return
		}
		time.Sleep(100 * time.Millisecond)
	}
}

func roundTrip(addr, req, want string) bool {
	c, err := net.DialTimeout("tcp", addr, 2*time.Second)
	if err != nil {
		return false
	}
	defer c.Close()
	_ = c.SetDeadline(time.Now().Add(4 * time.Second))
	if _, err = c.Write([]byte(req)); err != nil {
		return false
	}
	buf := make([]byte, 64)
	n, _ := c.Read(buf)
	return strings.HasPrefix(string(buf[:n]), want)
}

// ---- crash report parsing ----

var (
	reDigits = regexp.MustCompile(`0x[0-9a-fA-F]+|[0-9]+`)
	// data echoed in panic messages (arguments, quoted strings, indices) is not part of the class
	reEcho = regexp.MustCompile("\\([^)]*\\)|\"[^\"]*\"|\\[[^\\]]*\\]|'[^']*'")
)

// crashInfo extracts (kind, message, site) from the worker's stderr/stdout and exit state.
type crashInfo struct {
	Kind string // panic | fatal | exit
	Msg  string
	Site string
	Text string // head of the report
	Exit string
}

func funcOfFrame(line string) string {
	line = strings.TrimSpace(line)
	if i := strings.LastIndex(line, "("); i > 0 && strings.HasSuffix(line, ")") {
		// strip the argument list; keep method receivers like (*T).m
		depth := 0
		for j := len(line) - 1; j >= 0; j-- {
			if line[j] == ')' {
				depth++
			} else if line[j] == '(' {
				depth--
				if depth == 0 {
					return line[:j]
				}
			}
		}
	}
	return line
}

// isStdlibFrame: standard library import paths have no dot in their first element.
func isStdlibFrame(f string) bool {
	first := f
	if i := strings.Index(f, "/"); i >= 0 {
		first = f[:i]
		return !strings.Contains(first, ".")
	}
	pkg := f
	if i := strings.Index(f, "."); i >= 0 {
		pkg = f[:i]
	}
	return pkg != "main"
}

func parseCrash(w *Worker) crashInfo {
	text := readFileTail(w.stderr, 1<<20)
	ci := crashInfo{Kind: "exit", Exit: "?"}
	if w.state != nil {
		ci.Exit = w.state.String()
	}
	lines := strings.Split(text, "\n")
	start := -1
	for i, l := range lines {
		if strings.HasPrefix(l, "panic: ") || strings.HasPrefix(l, "fatal error: ") {
			start = i
			break
		}
	}
	if start < 0 {
		out := w.stdout.String()
		ci.Msg = "process exited without a Go crash report"
		if strings.Contains(out, "WORKER-CORE-ENDED") {
			ci.Msg = "Core.run returned (server shut itself down)"
			ci.Site = "core.run-ended"
		}
		ci.Text = vshort(text, 1500) + "\n--stdout--\n" + vshort(out, 800)
		return ci
	}
	head := lines[start]
	if strings.HasPrefix(head, "panic: ") {
		ci.Kind = "panic"
		ci.Msg = strings.TrimPrefix(head, "panic: ")
	} else {
		ci.Kind = "fatal"
		ci.Msg = strings.TrimPrefix(head, "fatal error: ")
	}
	// the first goroutine block after the head is the crashing goroutine
	g := -1
	for i := start + 1; i < len(lines); i++ {
		if strings.HasPrefix(lines[i], "goroutine ") {
			g = i
			break
		}
	}
	if g >= 0 {
		var frames []string
		for i := g + 1; i < len(lines) && strings.TrimSpace(lines[i]) != ""; i++ {
			if !strings.HasPrefix(lines[i], "\t") && !strings.HasPrefix(lines[i], " ") {
				frames = append(frames, funcOfFrame(lines[i]))
			}
		}
		last := -1
		for i, f := range frames {
			if f == "panic" || strings.HasPrefix(f, "runtime.gopanic") || strings.HasPrefix(f, "runtime.sigpanic") ||
				strings.HasPrefix(f, "runtime.goPanic") || strings.HasPrefix(f, "runtime.panic") {
				last = i
			}
		}
		// the site is the first frame after the panic machinery that is not in the standard library
		for i := last + 1; i < len(frames); i++ {
			if !isStdlibFrame(frames[i]) {
				ci.Site = frames[i]
				break
			}
		}
		if ci.Site == "" && last+1 < len(frames) {
			ci.Site = frames[last+1]
		}
		if ci.Site == "" && len(frames) > 0 {
			ci.Site = frames[0]
		}
	}
	end := start + 60
	if end > len(lines) {
		end = len(lines)
	}
	ci.Text = strings.Join(lines[start:end], "\n")
	return ci
}

func (c crashInfo) key(listener string) string {
	msg := reEcho.ReplaceAllString(c.Msg, "")
	msg = reDigits.ReplaceAllString(msg, "N")
	msg = strings.Map(func(r rune) rune {
		switch {
		case r >= 'a' && r <= 'z', r >= 'A' && r <= 'Z', r >= '0' && r <= '9', r == '.', r == '_':
			return r
		}
		return '-'
	}, msg)
	for strings.Contains(msg, "--") {
		msg = strings.ReplaceAll(msg, "--", "-")
	}
	msg = strings.Trim(msg, "-")
	if len(msg) > 60 {
		msg = msg[:60]
	}
	site := c.Site
	if i := strings.Index(site, "mediamtx/"); i >= 0 {
		site = site[i+len("mediamtx/"):]
	}
	site = strings.NewReplacer("(", "", ")", "", "*", "", "/", ".", " ", "").Replace(site)
	if site == "" {
		site = "unknown-site"
	}
	return fmt.Sprintf("%s/%s/%s@%s", listener, c.Kind, msg, site)
}
