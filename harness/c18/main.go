// C18: reader limits hold and readers are torn down when the stream goes away.
// Engine S over the real pathManager + path + stream (see harness/pmlib).
package main

import (
	"github.com/bluenviron/mediamtx/internal/zzverif/pmlib"
	"github.com/bluenviron/mediamtx/internal/zzverif/vexplore"
)

func main() {
	bg := []string{"dumper.go"}
	mk := func(name, desc, yaml string, max int, pubs []pmlib.PubSpec, rdrs []pmlib.RdrSpec, qb, tb int) *vexplore.Scenario {
		return &vexplore.Scenario{
			Name: name, Desc: desc, Body: pmlib.PubReadBody(pmlib.LoadConf(yaml), pubs, rdrs, false),
			Invariant: pmlib.MaxReadersInvariant, Check: pmlib.CheckReaders(max),
			QuickBound: qb, ThoroughBound: tb, Horizon: 20000, Bg: bg,
		}
	}
	scn := []*vexplore.Scenario{
		mk("max1-three-readers", "maxReaders 1; publisher A; readers R1 (adds itself twice), R2, R3(detaches by itself)",
			"paths:\n  p:\n    maxReaders: 1\n", 1,
			[]pmlib.PubSpec{{ID: "A", Writes: 1, Pre: true, Linger: true}}, []pmlib.RdrSpec{{ID: "R1", Twice: true}, {ID: "R2"}, {ID: "R3", Detach: true}}, 2, 3),
		mk("max2-three-readers", "maxReaders 2; publisher A; readers R1 (twice), R2, R3",
			"paths:\n  p:\n    maxReaders: 2\n", 2,
			[]pmlib.PubSpec{{ID: "A", Writes: 1, Pre: true, Linger: true}}, []pmlib.RdrSpec{{ID: "R1", Twice: true}, {ID: "R2"}, {ID: "R3"}}, 2, 3),
		mk("unlimited-override", "maxReaders 0; publishers A then B (override) ; readers R1, R2: teardown on replacement",
			"paths:\n  p:\n    overridePublisher: yes\n", 0,
			[]pmlib.PubSpec{{ID: "A", Writes: 1, Stay: true, Pre: true}, {ID: "B", Writes: 1, Linger: true}}, []pmlib.RdrSpec{{ID: "R1", Pre: true}, {ID: "R2", Twice: true}}, 2, 3),
	}
	scn = append(scn, mk("max2-with-hidden-reader", "maxReaders 2; publisher A; a hidden reader H (what the HLS muxer is) attached first, then R1, R2, R3",
		"paths:\n  p:\n    maxReaders: 2\n", 2,
		[]pmlib.PubSpec{{ID: "A", Writes: 1, Pre: true, Linger: true}}, []pmlib.RdrSpec{{ID: "H", Pre: true, Hidden: true}, {ID: "R1"}, {ID: "R2"}, {ID: "R3", Detach: true}}, 2, 3))
	// readers held for an on-demand publisher are attached all at once when it arrives: the limit still holds
	odConf := pmlib.LoadConf("paths:\n  p:\n    maxReaders: 1\n    runOnDemand: vcmd demand\n    runOnDemandStartTimeout: 10s\n    runOnDemandCloseAfter: 10s\n")
	scn = append(scn, &vexplore.Scenario{
		Name: "max1-held-readers", Desc: "maxReaders 1, on-demand publisher: R1, R3, R4 request while the publisher is not there yet, then it arrives",
		Body: pmlib.DemandBody(odConf, pmlib.DemandSpec{Source: true, MoreReaders: 2}), Invariant: pmlib.MaxReadersInvariant,
		Check: pmlib.CheckReaders(1), QuickBound: 1, ThoroughBound: 2, Horizon: 20000, Bg: bg,
	})
	always := "paths:\n  p:\n    alwaysAvailable: yes\n    alwaysAvailableTracks:\n    - codec: G711\n      sampleRate: 8000\n      channelCount: 1\n      muLaw: false\n"
	scn = append(scn, &vexplore.Scenario{
		Name: "always-available-recreated", Desc: "offline always-available path with a reader attached is recreated by a reload (maxReaders changes): the reader is closed",
		Body: pmlib.AlwaysTeardownBody(pmlib.LoadConf(always), pmlib.LoadConf(always+"    maxReaders: 5\n")), Invariant: pmlib.MaxReadersInvariant,
		Check: pmlib.CheckAlwaysTeardown, QuickBound: 1, ThoroughBound: 2, Horizon: 20000, Bg: []string{"dumper.go", "stream/offline_sub_stream_track.go"},
	})
	vexplore.Main("C18", scn, []string{
		"fake reader/publisher sessions drive the real pathManager API",
		"the maxReaders bound is an invariant evaluated after every scheduler step on a snapshot of path.readers",
	})
}
