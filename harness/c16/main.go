// C16: at most one publisher per path; replaced publishers are cut off.
// Engine S over the real pathManager + path + stream (see harness/pmlib).
package main

import (
	"github.com/bluenviron/mediamtx/internal/zzverif/pmlib"
	"github.com/bluenviron/mediamtx/internal/zzverif/vexplore"
)

func main() {
	noOver := pmlib.LoadConf("paths:\n  p:\n    overridePublisher: no\n")
	over := pmlib.LoadConf("paths:\n  p:\n    overridePublisher: yes\n")
	bg := []string{"dumper.go", "stream/offline_sub_stream_track.go"}
	always := pmlib.LoadConf("paths:\n  p:\n    overridePublisher: yes\n    alwaysAvailable: yes\n    alwaysAvailableTracks:\n" +
		"    - codec: G711\n      sampleRate: 8000\n      channelCount: 1\n      muLaw: false\n")
	scn := []*vexplore.Scenario{
		{
			Name: "always-available-override", Desc: "always-available path (one stream outlives its publishers; SubStream.WriteUnit's stale-substream guard): A attached with reader R1, then A writes 2 units while B overrides (2 writes) and R2 attaches",
			Body: pmlib.PubReadBodyOpt(always, []pmlib.PubSpec{{ID: "A", Writes: 2, Stay: true, Pre: true}, {ID: "B", Writes: 2}}, []pmlib.RdrSpec{{ID: "R1", Pre: true}, {ID: "R2"}}, false, true),
			Check: pmlib.CheckPublishersOpt(true, true), QuickBound: 1, ThoroughBound: 2, Horizon: 20000, Bg: bg,
		},
		{
			Name: "two-publishers-no-override", Desc: "A attached with reader R, then concurrently: A writes 2 units and leaves, B tries to publish (1 write), reader Q attaches; overridePublisher off",
			Body: pmlib.PubReadBody(noOver, []pmlib.PubSpec{{ID: "A", Writes: 2, Pre: true}, {ID: "B", Writes: 1}}, []pmlib.RdrSpec{{ID: "R", Pre: true}, {ID: "Q"}}, false),
			Check: pmlib.CheckPublishers(false), QuickBound: 2, ThoroughBound: 3, Horizon: 20000, Bg: bg,
		},
		{
			Name: "two-publishers-override", Desc: "A attached with reader R1, then concurrently: A writes 2 units, B overrides (2 writes), reader R2 attaches; overridePublisher on",
			Body: pmlib.PubReadBody(over, []pmlib.PubSpec{{ID: "A", Writes: 2, Stay: true, Pre: true}, {ID: "B", Writes: 2}}, []pmlib.RdrSpec{{ID: "R1", Pre: true}, {ID: "R2"}}, false),
			Check: pmlib.CheckPublishers(true), QuickBound: 2, ThoroughBound: 3, Horizon: 20000, Bg: bg,
		},
		{
			Name: "three-publishers-override", Desc: "A, B, C (1 write each) publish concurrently, reader R; overridePublisher on",
			Body: pmlib.PubReadBody(over, []pmlib.PubSpec{{ID: "A", Writes: 1, Stay: true}, {ID: "B", Writes: 1, Stay: true}, {ID: "C", Writes: 1}}, []pmlib.RdrSpec{{ID: "R"}}, false),
			Check: pmlib.CheckPublishers(true), QuickBound: 1, ThoroughBound: 2, Horizon: 20000, Bg: bg,
		},
	}
	scn = append(scn, &vexplore.Scenario{
		Name: "always-available-rejected-override", Desc: "always-available path: A attached with reader R1 keeps writing while B, whose tracks are incompatible, tries to override it (A is closed, B refused)",
		Body: pmlib.PubReadBodyOpt(always, []pmlib.PubSpec{{ID: "A", Writes: 3, Stay: true, Pre: true, QuietBeforeLast: true}, {ID: "B", Writes: 1, Incompatible: true}}, []pmlib.RdrSpec{{ID: "R1", Pre: true}}, false, true),
		Check: pmlib.CheckPublishersOpt(true, true), QuickBound: 2, ThoroughBound: 3, Horizon: 20000, Bg: bg,
	})
	scn = append(scn, &vexplore.Scenario{Name: "stream-level-replace", Desc: "stream level (SubStream.WriteUnit stale-substream guard): always-available stream, publisher A (2 writes) replaced by B (1 write) concurrently, reader attached",
		Body: pmlib.ReplaceBody, Check: pmlib.CheckReplace, QuickBound: 2, ThoroughBound: 3, Horizon: 8000, Bg: bg})
	vexplore.Main("C16", scn, []string{
		"publishers/readers are fake sessions calling the real pathManager API with the call shapes of the protocol servers",
		"scenario always-available-override covers the stale-substream guard of SubStream.WriteUnit (one stream object outliving its publishers); its offline sub stream timers are background",
		"'afterwards' is read as: a unit whose WriteUnit began after the replacement was observable never reaches a reader attached after it",
	})
}
