// C16: at most one publisher per path; replaced publishers are cut off.
// Engine S over the real pathManager + path + stream (see harness/pmlib).
package main

import (
	"time"

	"github.com/bluenviron/mediamtx/internal/conf"
	"github.com/bluenviron/mediamtx/internal/defs"
	"github.com/bluenviron/mediamtx/internal/zzverif/pmlib"
	"github.com/bluenviron/mediamtx/internal/zzverif/vexplore"
	"github.com/bluenviron/mediamtx/zzverif/vsched"
)

// recreateBody: path close in the middle of a publishing session. Reader R1 creates demand on a runOnDemand path
// (overridePublisher off), publisher A attaches and serves it; then, concurrently, a reload that recreates the
// path, a write of A, and a new publisher B. The path that goes away must close A before B can become the
// source of the path of that name.
func recreateBody(c0, c1 *conf.Conf) func() {
	return func() {
		pmlib.Audio = false
		pmlib.Live = nil
		pm := pmlib.New(c0, pmlib.AllowAll{}, false)
		pmlib.Live = pm
		desc, m, f := pmlib.NewDesc()
		rdone := make(chan struct{})
		vsched.Go(func() {
			defer vsched.Close(rdone)
			r := &pmlib.Rdr{ID: "R1"}
			closed := make(chan struct{})
			r.OnClose = func() { vsched.Close(closed) }
			res, sr, err := pm.Read(r, "p", m, f)
			if err != nil {
				return
			}
			vsched.Recv(closed)
			res.Stream.RemoveReader(sr)
			vsched.Log("detaching R1")
			res.Path.RemoveReader(defs.PathRemoveReaderReq{Author: r})
			vsched.Log("detached R1")
		})
		vsched.WaitQuiet() // R1 is on hold, the runOnDemand command has been started
		a := &pmlib.Pub{ID: "A"}
		resA, err := pm.Publish(a, "p", desc)
		if err != nil {
			vsched.Fail("HARNESS: publisher A refused: %v", err)
			return
		}
		vsched.WaitQuiet()
		vsched.Log("phase2")
		var done []chan struct{}
		task := func(fn func()) {
			d := make(chan struct{})
			done = append(done, d)
			vsched.Go(func() { defer vsched.Close(d); fn() })
		}
		task(func() {
			vsched.Log("reloading")
			pm.ReloadPathConfs(c1.Paths)
			vsched.Log("reloaded")
		})
		task(func() { pmlib.Write(resA.SubStream, m, f, 'A', 1) })
		task(func() {
			b := &pmlib.Pub{ID: "B"}
			resB, err := pm.Publish(b, "p", desc)
			if err != nil {
				return
			}
			pmlib.Write(resB.SubStream, m, f, 'B', 1)
		})
		for _, d := range done {
			vsched.Recv(d)
		}
		vsched.WaitIdle()
		vsched.Log("settled %s", pmlib.SnapString(pm))
		pm.Close()
		vsched.Log("closed")
		vsched.Recv(rdone)
		vsched.Log("end")
	}
}

// closeAfterBody: runOnDemand path, overridePublisher off. Reader R1 creates demand, publisher A (a client of its
// own, not the command) attaches and serves it, R1 leaves, nobody reads for longer than runOnDemandCloseAfter;
// then publisher B arrives. A has never been closed, so it is still the publisher: B must be refused.
func closeAfterBody(c0 *conf.Conf) func() {
	return func() {
		pmlib.Audio = false
		pmlib.Live = nil
		pm := pmlib.New(c0, pmlib.AllowAll{}, false)
		pmlib.Live = pm
		desc, m, f := pmlib.NewDesc()
		rdone := make(chan struct{})
		vsched.Go(func() {
			defer vsched.Close(rdone)
			r := &pmlib.Rdr{ID: "R1"}
			res, sr, err := pm.Read(r, "p", m, f)
			if err != nil {
				return
			}
			vsched.WaitQuiet() // served
			res.Stream.RemoveReader(sr)
			vsched.Log("detaching R1")
			res.Path.RemoveReader(defs.PathRemoveReaderReq{Author: r})
			vsched.Log("detached R1")
		})
		vsched.WaitQuiet() // R1 is on hold, the command has been started
		a := &pmlib.Pub{ID: "A"}
		resA, err := pm.Publish(a, "p", desc)
		if err != nil {
			vsched.Fail("HARNESS: publisher A refused: %v", err)
			return
		}
		vsched.Recv(rdone)
		vsched.Log("phase2")
		vsched.Advance(25 * time.Second) // longer than the close delay: the on-demand session ends
		var done []chan struct{}
		task := func(fn func()) {
			d := make(chan struct{})
			done = append(done, d)
			vsched.Go(func() { defer vsched.Close(d); fn() })
		}
		task(func() { pmlib.Write(resA.SubStream, m, f, 'A', 1) })
		task(func() {
			b := &pmlib.Pub{ID: "B"}
			resB, err := pm.Publish(b, "p", desc)
			if err != nil {
				return
			}
			pmlib.Write(resB.SubStream, m, f, 'B', 1)
		})
		for _, d := range done {
			vsched.Recv(d)
		}
		vsched.WaitIdle()
		vsched.Log("settled %s", pmlib.SnapString(pm))
		pm.Close()
		vsched.Log("closed")
		vsched.Log("end")
	}
}

func main() {
	noOver := pmlib.LoadConf("paths:\n  p:\n    overridePublisher: no\n")
	over := pmlib.LoadConf("paths:\n  p:\n    overridePublisher: yes\n")
	bg := []string{"dumper.go", "stream/offline_sub_stream_track.go"}
	always := pmlib.LoadConf("paths:\n  p:\n    overridePublisher: yes\n    alwaysAvailable: yes\n    alwaysAvailableTracks:\n" +
		"    - codec: G711\n      sampleRate: 8000\n      channelCount: 1\n      muLaw: false\n")
	scn := []*vexplore.Scenario{
		{
			Name: "always-available-override", Desc: "always-available path (one stream outlives its publishers; SubStream.WriteUnit's stale-substream guard): A attached with reader R1, then A writes 2 units while B overrides (2 writes) and R2 attaches",
			Body:  pmlib.PubReadBodyOpt(always, []pmlib.PubSpec{{ID: "A", Writes: 2, Stay: true, Pre: true}, {ID: "B", Writes: 2}}, []pmlib.RdrSpec{{ID: "R1", Pre: true}, {ID: "R2"}}, false, true),
			Check: pmlib.CheckPublishersOpt(true, true), QuickBound: 1, ThoroughBound: 2, Horizon: 20000, Bg: bg,
		},
		{
			Name: "two-publishers-no-override", Desc: "A attached with reader R, then concurrently: A writes 2 units and leaves, B tries to publish (1 write), reader Q attaches; overridePublisher off",
			Body:  pmlib.PubReadBody(noOver, []pmlib.PubSpec{{ID: "A", Writes: 2, Pre: true}, {ID: "B", Writes: 1}}, []pmlib.RdrSpec{{ID: "R", Pre: true}, {ID: "Q"}}, false),
			Check: pmlib.CheckPublishers(false), QuickBound: 2, ThoroughBound: 3, Horizon: 20000, Bg: bg,
		},
		{
			Name: "two-publishers-override", Desc: "A attached with reader R1, then concurrently: A writes 2 units, B overrides (2 writes), reader R2 attaches; overridePublisher on",
			Body:  pmlib.PubReadBody(over, []pmlib.PubSpec{{ID: "A", Writes: 2, Stay: true, Pre: true}, {ID: "B", Writes: 2}}, []pmlib.RdrSpec{{ID: "R1", Pre: true}, {ID: "R2"}}, false),
			Check: pmlib.CheckPublishers(true), QuickBound: 2, ThoroughBound: 3, Horizon: 20000, Bg: bg,
		},
		{
			Name: "three-publishers-override", Desc: "A, B, C (1 write each) publish concurrently, reader R; overridePublisher on",
			Body:  pmlib.PubReadBody(over, []pmlib.PubSpec{{ID: "A", Writes: 1, Stay: true}, {ID: "B", Writes: 1, Stay: true}, {ID: "C", Writes: 1}}, []pmlib.RdrSpec{{ID: "R"}}, false),
			Check: pmlib.CheckPublishers(true), QuickBound: 1, ThoroughBound: 2, Horizon: 20000, Bg: bg,
		},
	}
	scn = append(scn, &vexplore.Scenario{
		Name: "always-available-rejected-override", Desc: "always-available path: A attached with reader R1 keeps writing while B, whose tracks are incompatible, tries to override it (A is closed, B refused)",
		Body:  pmlib.PubReadBodyOpt(always, []pmlib.PubSpec{{ID: "A", Writes: 3, Stay: true, Pre: true, QuietBeforeLast: true}, {ID: "B", Writes: 1, Incompatible: true}}, []pmlib.RdrSpec{{ID: "R1", Pre: true}}, false, true),
		Check: pmlib.CheckPublishersOpt(true, true), QuickBound: 2, ThoroughBound: 3, Horizon: 20000, Bg: bg,
	})
	scn = append(scn, &vexplore.Scenario{
		Name: "always-available-override-late-remove", Desc: "always-available path: A attached with reader R1; B overrides A and keeps publishing; A, like a real session, sends its RemovePublisher after the path has closed it",
		Body:  pmlib.PubReadBodyOpt(always, []pmlib.PubSpec{{ID: "A", Writes: 1, Pre: true, RemoveWhenClosed: true}, {ID: "B", Writes: 2, Stay: true, QuietBeforeLast: true}}, []pmlib.RdrSpec{{ID: "R1", Pre: true}}, false, true),
		Check: pmlib.CheckPublishersOpt(true, true), QuickBound: 2, ThoroughBound: 3, Horizon: 20000, Bg: bg,
	}, &vexplore.Scenario{
		Name: "override-late-remove", Desc: "same on an ordinary path, with a reader R2 attaching to B's stream",
		Body:  pmlib.PubReadBody(over, []pmlib.PubSpec{{ID: "A", Writes: 1, Pre: true, RemoveWhenClosed: true}, {ID: "B", Writes: 2, Stay: true, QuietBeforeLast: true}}, []pmlib.RdrSpec{{ID: "R1", Pre: true}, {ID: "R2"}}, false),
		Check: pmlib.CheckPublishers(true), QuickBound: 2, ThoroughBound: 3, Horizon: 20000, Bg: bg,
	})
	od0 := pmlib.LoadConf("paths:\n  p:\n    overridePublisher: no\n    runOnDemand: vcmd demand\n    runOnDemandStartTimeout: 10s\n    runOnDemandCloseAfter: 10s\n")
	od1 := pmlib.LoadConf("paths:\n  p:\n    overridePublisher: no\n    maxReaders: 7\n    runOnDemand: vcmd demand\n    runOnDemandStartTimeout: 10s\n    runOnDemandCloseAfter: 10s\n")
	plain0 := pmlib.LoadConf("paths:\n  p:\n    overridePublisher: no\n")
	plain1 := pmlib.LoadConf("paths:\n  p:\n    overridePublisher: no\n    maxReaders: 7\n")
	scn = append(scn, &vexplore.Scenario{
		Name: "recreate-ondemand-path-vs-publishers", Desc: "runOnDemand path with an active on-demand session (reader R1, publisher A), overridePublisher off: a reload recreates the path while A writes and B publishes; the path that closes must close A before B is accepted on the new one",
		Body: recreateBody(od0, od1), Check: pmlib.CheckPublishers(false), QuickBound: 2, ThoroughBound: 3, Horizon: 20000, Bg: bg,
	}, &vexplore.Scenario{
		Name: "recreate-path-vs-publishers", Desc: "same on a path without on-demand command",
		Body: recreateBody(plain0, plain1), Check: pmlib.CheckPublishers(false), QuickBound: 2, ThoroughBound: 3, Horizon: 20000, Bg: bg,
	})
	scn = append(scn, &vexplore.Scenario{
		Name: "ondemand-close-after-vs-second-publisher", Desc: "runOnDemand path, overridePublisher off: publisher A (not the command) serves R1, R1 leaves, the close delay expires; then A writes and B tries to publish: A was never closed and is still the publisher, B must be refused",
		Body: closeAfterBody(od0), Check: pmlib.CheckPublishers(false), QuickBound: 2, ThoroughBound: 3, Horizon: 20000, Bg: bg,
	})
	scn = append(scn, &vexplore.Scenario{Name: "stream-level-replace", Desc: "stream level (SubStream.WriteUnit stale-substream guard): always-available stream, publisher A (2 writes) replaced by B (1 write) concurrently, reader attached",
		Body: pmlib.ReplaceBody, Check: pmlib.CheckReplace, QuickBound: 2, ThoroughBound: 3, Horizon: 8000, Bg: bg})
	vexplore.Main("C16", scn, []string{
		"publishers/readers are fake sessions calling the real pathManager API with the call shapes of the protocol servers",
		"scenario always-available-override covers the stale-substream guard of SubStream.WriteUnit (one stream object outliving its publishers); its offline sub stream timers are background",
		"'afterwards' is read as: a unit whose WriteUnit began after the replacement was observable never reaches a reader attached after it",
	})
}
