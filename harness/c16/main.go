// C16: at most one publisher per path; replaced publishers are cut off.
// Engine S over the real pathManager + path + stream (see harness/pmlib).
package main

import (
	"github.com/bluenviron/mediamtx/internal/zzverif/pmlib"
	"github.com/bluenviron/mediamtx/internal/zzverif/vexplore"
)

func main() {
	noOver := pmlib.LoadConf("paths:\n  p:\n    overridePublisher: no\n")
	over := pmlib.LoadConf("paths:\n  p:\n    overridePublisher: yes\n")
	bg := []string{"dumper.go"}
	scn := []*vexplore.Scenario{
		{
			Name: "two-publishers-no-override", Desc: "A attached with reader R, then concurrently: A writes 2 units and leaves, B tries to publish (1 write), reader Q attaches; overridePublisher off",
			Body: pmlib.PubReadBody(noOver, []pmlib.PubSpec{{ID: "A", Writes: 2, Pre: true}, {ID: "B", Writes: 1}}, []pmlib.RdrSpec{{ID: "R", Pre: true}, {ID: "Q"}}, false),
			Check: pmlib.CheckPublishers(false), QuickBound: 2, ThoroughBound: 3, Horizon: 20000, Bg: bg,
		},
		{
			Name: "two-publishers-override", Desc: "A attached with reader R1, then concurrently: A writes 2 units, B overrides (2 writes), reader R2 attaches; overridePublisher on",
			Body: pmlib.PubReadBody(over, []pmlib.PubSpec{{ID: "A", Writes: 2, Stay: true, Pre: true}, {ID: "B", Writes: 2}}, []pmlib.RdrSpec{{ID: "R1", Pre: true}, {ID: "R2"}}, false),
			Check: pmlib.CheckPublishers(true), QuickBound: 2, ThoroughBound: 3, Horizon: 20000, Bg: bg,
		},
		{
			Name: "three-publishers-override", Desc: "A, B, C (1 write each) publish concurrently, reader R; overridePublisher on",
			Body: pmlib.PubReadBody(over, []pmlib.PubSpec{{ID: "A", Writes: 1, Stay: true}, {ID: "B", Writes: 1, Stay: true}, {ID: "C", Writes: 1}}, []pmlib.RdrSpec{{ID: "R"}}, false),
			Check: pmlib.CheckPublishers(true), QuickBound: 1, ThoroughBound: 2, Horizon: 20000, Bg: bg,
		},
	}
	vexplore.Main("C16", scn, []string{
		"publishers/readers are fake sessions calling the real pathManager API with the call shapes of the protocol servers",
		"non-alwaysAvailable paths (one stream object per publisher); the alwaysAvailable stale-substream guard is covered by scenario notes in DESIGN.md",
		"'afterwards' is read as: a unit whose WriteUnit began after the replacement was observable never reaches a reader attached after it",
	})
}
