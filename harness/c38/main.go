// C38: the configuration watcher never loses the final file content.
// Engine S: the real internal/confwatcher, instrumented, with `time` on the virtual clock and fsnotify replaced
// by a fake watcher whose events the harness feeds. The file system is real (a temp dir), so Stat/EvalSymlinks
// are real. The event model (which events an operation produces) is validated against the real fsnotify first.
package main

import (
	"fmt"
	"os"
	"path/filepath"
	"sort"
	"strings"
	"time"

	"github.com/fsnotify/fsnotify"

	"github.com/bluenviron/mediamtx/internal/confwatcher"
	"github.com/bluenviron/mediamtx/internal/core"
	"github.com/bluenviron/mediamtx/internal/zzverif/vcommon"
	"github.com/bluenviron/mediamtx/internal/zzverif/vexplore"
	"github.com/bluenviron/mediamtx/zzverif/vsched"
)

type ev struct {
	name string // base name inside the directory
	op   fsnotify.Op
}

// op kinds
const (
	opWrite   = "write"   // rewrite the file in place (truncate + write)
	opRemove  = "remove"  // delete it
	opCreate  = "create"  // create it (after a remove) and write
	opRename  = "rename"  // write a temp file and rename it over the watched file (editors, atomic save)
	opTouchO  = "other"   // write an unrelated file in the same directory
	opRestore = "restore" // rename an older version (modification time one hour in the past) over the watched file (mv backup conf)
)

var opKinds = []string{opWrite, opRemove, opCreate, opRename, opTouchO}

// symlink mode (the watched path is a symbolic link to data/v<N>.yml, as with Kubernetes ConfigMaps)
const (
	opSwap   = "swap"   // write a new target, re-point the link atomically (temporary link + rename); the old target stays
	opSwapRm = "swaprm" // same, and the old target is deleted
	opUnlink = "unlink" // the link is deleted
)

var symKinds = []string{opSwap, opSwapRm, opUnlink, opTouchO}

var gaps = []time.Duration{0, 5 * time.Millisecond, 500 * time.Millisecond, 1500 * time.Millisecond}

// coreMode: the file holds real configurations (one line of flow-style YAML, every server disabled, one path
// p<serial>) because the consumer is the real Core.
var coreMode bool

const coreConfFmt = "{logLevel: error, rtsp: no, rtmp: no, hls: no, webrtc: no, srt: no, moq: no, api: no, metrics: no, pprof: no, playback: no, paths: {p%d: {}}}"

// stamp gives a file a modification time that is a function of the virtual clock (the real clock must not leak
// into an execution): base + virtual now. Two writes at the same virtual instant get the same time, as on a file
// system with coarse timestamps. Not used outside explorations (conformance runs against the real fsnotify).
var mtimeBase = time.Date(2024, 1, 1, 0, 0, 0, 0, time.UTC)

func stamp(path string, back time.Duration) {
	if !vsched.Active() {
		return
	}
	t := mtimeBase.Add(vsched.VirtualNow() - back)
	os.Chtimes(path, t, t)
}

func contentOf(serial int) string {
	if coreMode {
		return fmt.Sprintf(coreConfFmt, serial)
	}
	if serial == 0 {
		return "content-init"
	}
	return fmt.Sprintf("content-%d", serial)
}

// perform does the operation for real in dir and returns the events the model says it produces.
func perform(dir, kind string, serial int) []ev {
	f := filepath.Join(dir, "conf.yml")
	content := contentOf(serial)
	switch kind {
	case opWrite:
		if _, err := os.Stat(f); err != nil {
			return nil // nothing to rewrite
		}
		os.WriteFile(f, []byte(content), 0o644)
		stamp(f, 0)
		return []ev{{"conf.yml", fsnotify.Write}}
	case opRemove:
		if os.Remove(f) != nil {
			return nil
		}
		return []ev{{"conf.yml", fsnotify.Remove}}
	case opCreate:
		if _, err := os.Stat(f); err == nil {
			return nil
		}
		os.WriteFile(f, []byte(content), 0o644)
		stamp(f, 0)
		return []ev{{"conf.yml", fsnotify.Create}, {"conf.yml", fsnotify.Write}}
	case opRename:
		t := filepath.Join(dir, "conf.yml.tmp")
		os.WriteFile(t, []byte(content), 0o644)
		stamp(t, 0)
		os.Rename(t, f)
		return []ev{{"conf.yml.tmp", fsnotify.Create}, {"conf.yml.tmp", fsnotify.Write}, {"conf.yml.tmp", fsnotify.Rename}, {"conf.yml", fsnotify.Create}}
	case opSwap, opSwapRm:
		old, _ := os.Readlink(f)
		target := filepath.Join("data", fmt.Sprintf("v%d.yml", serial))
		os.MkdirAll(filepath.Join(dir, "data"), 0o755)
		os.WriteFile(filepath.Join(dir, target), []byte(content), 0o644)
		stamp(filepath.Join(dir, target), 0)
		t := filepath.Join(dir, "conf.yml.lnk")
		os.Remove(t)
		if err := os.Symlink(target, t); err != nil {
			panic(err)
		}
		if err := os.Rename(t, f); err != nil {
			panic(err)
		}
		if kind == opSwapRm && old != "" {
			os.Remove(filepath.Join(dir, old))
		}
		return []ev{{"conf.yml.lnk", fsnotify.Create}, {"conf.yml.lnk", fsnotify.Rename}, {"conf.yml", fsnotify.Create}}
	case opUnlink:
		if os.Remove(f) != nil {
			return nil
		}
		return []ev{{"conf.yml", fsnotify.Remove}}
	case opRestore:
		t := filepath.Join(dir, "conf.yml.bak")
		os.WriteFile(t, []byte(content), 0o644)
		if vsched.Active() {
			stamp(t, time.Hour)
		} else {
			old := time.Now().Add(-time.Hour)
			os.Chtimes(t, old, old)
		}
		os.Rename(t, f)
		return []ev{{"conf.yml.bak", fsnotify.Create}, {"conf.yml.bak", fsnotify.Write}, {"conf.yml.bak", fsnotify.Chmod}, {"conf.yml.bak", fsnotify.Rename}, {"conf.yml", fsnotify.Create}}
	case opTouchO:
		_, statErr := os.Stat(filepath.Join(dir, "other.txt"))
		os.WriteFile(filepath.Join(dir, "other.txt"), []byte(content), 0o644)
		if statErr != nil {
			return []ev{{"other.txt", fsnotify.Create}, {"other.txt", fsnotify.Write}}
		}
		return []ev{{"other.txt", fsnotify.Write}}
	}
	panic("bad op")
}

// conformance: the model's events for each operation vs. the real fsnotify (as a set of (name, op bits)).
func conformance() int {
	n := 0
	for _, seq := range [][]string{{opWrite}, {opRemove}, {opRemove, opCreate}, {opRename}, {opTouchO}, {opTouchO, opTouchO}, {opRestore},
		{"sym", opSwap}, {"sym", opSwapRm}, {"sym", opUnlink}, {"sym", opUnlink, opSwap}, {"sym", opSwap, opSwapRm}} {
		dir, _ := os.MkdirTemp("", "verif-c38-conf-")
		if seq[0] == "sym" {
			seq = seq[1:]
			setupSym(dir)
		} else {
			os.WriteFile(filepath.Join(dir, "conf.yml"), []byte("content-init"), 0o644)
		}
		w, err := fsnotify.NewWatcher()
		if err != nil {
			vcommon.Harness("fsnotify: %v", err)
		}
		w.Add(dir)
		var model []string
		for i, k := range seq {
			for _, e := range perform(dir, k, 10+i) {
				model = append(model, e.name+":"+e.op.String())
			}
		}
		var real []string
		deadline := time.After(300 * time.Millisecond)
	collect:
		for {
			select {
			case e := <-w.Events:
				for _, b := range []fsnotify.Op{fsnotify.Create, fsnotify.Write, fsnotify.Remove, fsnotify.Rename, fsnotify.Chmod} {
					if e.Op&b != 0 {
						real = append(real, filepath.Base(e.Name)+":"+b.String())
					}
				}
			case <-deadline:
				break collect
			}
		}
		w.Close()
		os.RemoveAll(dir)
		set := func(l []string) string {
			m := map[string]bool{}
			for _, x := range l {
				m[x] = true
			}
			var k []string
			for x := range m {
				k = append(k, x)
			}
			sort.Strings(k)
			return strings.Join(k, " ")
		}
		if set(model) != set(real) {
			vcommon.Harness("event model does not conform to the real fsnotify for %v: model {%s} real {%s}", seq, set(model), set(real))
		}
		n++
	}
	return n
}

// watchDir is the directory as the server names it (event names carry it, as with the real fsnotify).
var watchDir string

// setupSym: conf.yml -> data/v0.yml
func setupSym(dir string) {
	os.MkdirAll(filepath.Join(dir, "data"), 0o755)
	os.WriteFile(filepath.Join(dir, "data", "v0.yml"), []byte(contentOf(0)), 0o644)
	if err := os.Symlink(filepath.Join("data", "v0.yml"), filepath.Join(dir, "conf.yml")); err != nil {
		panic(err)
	}
}

type step struct {
	kind string
	gap  time.Duration // virtual time before the operation
}

func body(steps []step, sym bool, withCore bool, symdir ...bool) func() {
	return func() {
		coreMode = withCore
		root, err := os.MkdirTemp("", "verif-c38-")
		if err != nil {
			panic(err)
		}
		defer os.RemoveAll(root)
		// the operations happen in dir; the server is given watchDir, which is dir itself or (symdir) a
		// symbolic link to it: a directory component of the configured path is a link
		dir := filepath.Join(root, "real")
		os.Mkdir(dir, 0o755)
		watchDir = dir
		if len(symdir) > 0 && symdir[0] {
			watchDir = filepath.Join(root, "link")
			if err := os.Symlink("real", watchDir); err != nil {
				panic(err)
			}
		}
		f := filepath.Join(watchDir, "conf.yml")
		if sym {
			setupSym(dir)
		} else {
			os.WriteFile(filepath.Join(dir, "conf.yml"), []byte(contentOf(0)), 0o644)
			stamp(filepath.Join(dir, "conf.yml"), 0)
		}
		if withCore {
			coreBody(dir, f, steps)
			return
		}
		w := &confwatcher.ConfWatcher{FilePath: f}
		if err := w.Initialize(); err != nil {
			panic(err)
		}
		fw := vsched.LastFWatcher()
		consumerDone := make(chan struct{})
		vsched.Go(func() {
			defer vsched.Close(consumerDone)
			for {
				_, ok := vsched.Recv2(w.Watch())
				if !ok {
					return
				}
				// what Core does on a signal: load the file
				b, err := os.ReadFile(f)
				if err != nil {
					vsched.Log("loaded <error>")
				} else {
					vsched.Log("loaded %s", b)
				}
			}
		})
		vsched.Advance(2 * time.Second) // the server has been up for a while
		for i, st := range steps {
			if st.gap > 0 {
				vsched.Advance(st.gap)
			}
			evs := perform(dir, st.kind, i+1)
			vsched.Log("op %s", st.kind)
			for _, e := range evs {
				vsched.Send(fw.Events, fsnotify.Event{Name: filepath.Join(watchDir, e.name), Op: e.op})
			}
		}
		vsched.WaitIdle() // every pending event consumed, every timer fired
		if b, err := os.ReadFile(f); err == nil {
			vsched.Log("final %s", b)
		} else {
			vsched.Log("final <absent>")
		}
		w.Close()
		vsched.Recv(consumerDone)
		vsched.Log("end")
	}
}

// coreBody: the consumer of the watcher's signals is the real core.Core (created from the file by core.New, every
// server disabled); what it has loaded is read from the configuration it runs with at quiescence.
func coreBody(dir, f string, steps []step) {
	p, ok := core.New([]string{f})
	if !ok {
		vsched.Fail("HARNESS: core.New failed")
		return
	}
	fw := vsched.LastFWatcher()
	vsched.Advance(2 * time.Second)
	for i, st := range steps {
		if st.gap > 0 {
			vsched.Advance(st.gap)
		}
		evs := perform(dir, st.kind, i+1)
		vsched.Log("op %s", st.kind)
		for _, e := range evs {
			if core.VerifC38Done(p) {
				break // nobody reads the events any more
			}
			vsched.Select(false, vsched.S(fw.Events, fsnotify.Event{Name: filepath.Join(watchDir, e.name), Op: e.op}), vsched.R(core.VerifC38DoneCh(p)))
		}
	}
	vsched.WaitIdle()
	if core.VerifC38Done(p) {
		vsched.Log("server exited")
	} else {
		names := core.VerifC38ConfPaths(p)
		for _, n := range names {
			var k int
			if _, err := fmt.Sscanf(n, "p%d", &k); err == nil {
				vsched.Log("loaded %s", contentOf(k))
			}
		}
	}
	if b, err := os.ReadFile(f); err == nil {
		vsched.Log("final %s", b)
	} else {
		vsched.Log("final <absent>")
	}
	p.Close()
	vsched.Log("end")
}

var contentOfCore0 = fmt.Sprintf(coreConfFmt, 0)

func check(o *vsched.Outcome) (string, string) {
	tr := strings.Join(o.Trace, ", ")
	if o.Failure != "" {
		return "sched-" + strings.SplitN(o.Failure, ":", 2)[0], o.Failure + " | " + tr
	}
	if len(o.Trace) == 0 || o.Trace[len(o.Trace)-1] != "end" {
		return "incomplete", "scenario did not run to its end | " + tr
	}
	loaded := "content-init" // what the server started with
	for _, l := range o.Trace {
		if l == "server exited" {
			// the Core exits when the file is absent (or invalid) at the moment it reloads it: designed behaviour,
			// outside the statement (a server that is gone loads nothing); counted by the outcome statistics
			return "", ""
		}
		if strings.HasPrefix(l, "final {") || strings.HasPrefix(l, "loaded {") {
			loaded = contentOfCore0
		}
	}
	final := ""
	changed := false
	for _, l := range o.Trace {
		switch {
		case strings.HasPrefix(l, "loaded "):
			if l != "loaded <error>" {
				loaded = l[7:]
			}
		case strings.HasPrefix(l, "op ") && l != "op other":
			changed = true
		case strings.HasPrefix(l, "final "):
			final = l[6:]
		}
	}
	if changed && final != "<absent>" && loaded != final {
		return "final-content-not-loaded", fmt.Sprintf("the file stopped changing with content %q but the last content the server loaded is %q | %s", final, loaded, tr)
	}
	return "", ""
}

func main() {
	validated := 0
	if os.Getenv("VSCHED_WORKER") == "" {
		validated = conformance()
	}
	var scn []*vexplore.Scenario
	add := func(steps []step) {
		var parts []string
		for _, s := range steps {
			parts = append(parts, fmt.Sprintf("%s@+%v", s.kind, s.gap))
		}
		tb := 2
		if len(steps) == 4 {
			tb = 1 // length 4 (reduced alphabet) is explored with one deviation only
		}
		scn = append(scn, &vexplore.Scenario{Name: "file::" + strings.Join(parts, ","), Desc: "operations on a regular watched file, with virtual gaps", Body: body(steps, false, false), Check: check,
			QuickBound: 1, ThoroughBound: tb, Horizon: 5000, Quiet: true})
	}
	addSym := func(steps []step, thoroughOnly bool) {
		var parts []string
		for _, s := range steps {
			parts = append(parts, fmt.Sprintf("%s@+%v", s.kind, s.gap))
		}
		scn = append(scn, &vexplore.Scenario{Name: "symlink::" + strings.Join(parts, ","), Desc: "the watched path is a symbolic link (conf.yml -> data/vN.yml): swaps of the link, with and without deletion of the old target, with virtual gaps", Body: body(steps, true, false), Check: check,
			QuickBound: 1, ThoroughBound: 2, Horizon: 5000, Quiet: true, ThoroughOnly: thoroughOnly})
	}
	thorough := false
	for i, a := range os.Args {
		if a == "-tier" && i+1 < len(os.Args) && os.Args[i+1] == "thorough" {
			thorough = true
		}
	}
	maxLen := 2
	if thorough || os.Getenv("VSCHED_WORKER") != "" {
		maxLen = 4 // workers must know every scenario name; length 4 uses the reduced gap set {5 ms, 1.5 s}
	}
	// lengths 1..3: full alphabet; length 4 (thorough): operations on the watched file only, gaps {5 ms, 1.5 s}
	fullLen := maxLen
	if fullLen > 3 {
		fullLen = 3
	}
	var rec func(prefix []step)
	rec = func(prefix []step) {
		if len(prefix) > 0 {
			add(prefix)
		}
		if len(prefix) == fullLen {
			return
		}
		for _, k := range opKinds {
			for _, g := range gaps {
				if len(prefix) == 0 && g != 0 {
					continue // the gap before the first operation is irrelevant
				}
				rec(append(append([]step{}, prefix...), step{k, g}))
			}
		}
	}
	rec(nil)
	if maxLen == 4 {
		var rec4 func(prefix []step)
		rec4 = func(prefix []step) {
			if len(prefix) == 4 {
				add(prefix)
				return
			}
			for _, k := range []string{opWrite, opRemove, opCreate, opRename} {
				for _, g := range []time.Duration{5 * time.Millisecond, 1500 * time.Millisecond} {
					if len(prefix) == 0 {
						g = 0
					}
					rec4(append(append([]step{}, prefix...), step{k, g}))
					if len(prefix) == 0 {
						break
					}
				}
			}
		}
		rec4(nil)
	}
	// symlink mode: lengths 1..3 over {swap, swaprm, unlink, other} with all gaps (length 3 in the quick tier: gaps {5 ms, 1.5 s} only)
	var recS func(prefix []step)
	recS = func(prefix []step) {
		if len(prefix) > 0 {
			reduced := true
			for i, st := range prefix {
				if i > 0 && st.gap != 5*time.Millisecond && st.gap != 1500*time.Millisecond {
					reduced = false
				}
			}
			addSym(prefix, len(prefix) == 3 && !reduced)
		}
		if len(prefix) == 3 {
			return
		}
		for _, k := range symKinds {
			for _, g := range gaps {
				if len(prefix) == 0 && g != 0 {
					continue
				}
				recS(append(append([]step{}, prefix...), step{k, g}))
			}
		}
	}
	recS(nil)
	// Core mode: the real core.Core consumes the signals. Lengths 1..2 (thorough: 3, gaps {5 ms, 1.5 s}) over the
	// operations on a regular file plus "restore": an older version (modification time in the past) renamed over it
	addCore := func(steps []step, thoroughOnly bool) {
		var parts []string
		for _, s := range steps {
			parts = append(parts, fmt.Sprintf("%s@+%v", s.kind, s.gap))
		}
		scn = append(scn, &vexplore.Scenario{Name: "core::" + strings.Join(parts, ","), Desc: "regular watched file; the consumer of the watcher's signals is the real core.Core (every server disabled): at quiescence it must run with the configuration the file holds", Body: body(steps, false, true), Check: check,
			QuickBound: 1, ThoroughBound: 1, Horizon: 20000, Quiet: true, ThoroughOnly: thoroughOnly, Bg: []string{"dumper.go"}, BgTimers: []string{"recordcleaner/cleaner.go"}})
	}
	var recC func(prefix []step)
	recC = func(prefix []step) {
		if len(prefix) > 0 {
			addCore(prefix, len(prefix) == 3)
		}
		if len(prefix) == 3 {
			return
		}
		for _, k := range []string{opWrite, opRemove, opCreate, opRename, opRestore} {
			for _, g := range []time.Duration{5 * time.Millisecond, 1500 * time.Millisecond} {
				if len(prefix) == 0 {
					g = 0
				}
				recC(append(append([]step{}, prefix...), step{k, g}))
				if len(prefix) == 0 {
					break
				}
			}
		}
	}
	recC(nil)
	// a directory component of the configured path is a symbolic link (watcher only, and with the real Core);
	// the real Core with a configured path that is itself a link which is re-pointed
	addX := func(fam, desc string, steps []step, sym, withCore, symdir, thoroughOnly bool) {
		var parts []string
		for _, s := range steps {
			parts = append(parts, fmt.Sprintf("%s@+%v", s.kind, s.gap))
		}
		sc := &vexplore.Scenario{Name: fam + "::" + strings.Join(parts, ","), Desc: desc, Body: body(steps, sym, withCore, symdir), Check: check,
			QuickBound: 1, ThoroughBound: 1, Horizon: 20000, Quiet: true, ThoroughOnly: thoroughOnly}
		if withCore {
			sc.Bg, sc.BgTimers = []string{"dumper.go"}, []string{"recordcleaner/cleaner.go"}
		} else {
			sc.ThoroughBound, sc.Horizon = 2, 5000
		}
		scn = append(scn, sc)
	}
	var recX func(prefix []step, kinds []string, maxLen int, f func([]step))
	recX = func(prefix []step, kinds []string, maxLen int, f func([]step)) {
		if len(prefix) > 0 {
			f(prefix)
		}
		if len(prefix) == maxLen {
			return
		}
		for _, k := range kinds {
			for _, g := range []time.Duration{5 * time.Millisecond, 1500 * time.Millisecond} {
				if len(prefix) == 0 {
					g = 0
				}
				recX(append(append([]step{}, prefix...), step{k, g}), kinds, maxLen, f)
				if len(prefix) == 0 {
					break
				}
			}
		}
	}
	fileOps := []string{opWrite, opRemove, opCreate, opRename}
	recX(nil, fileOps, 3, func(st []step) {
		addX("symdir", "regular file reached through a symbolic link to its directory (the configured path has a linked directory component)", st, false, false, true, len(st) == 3)
	})
	recX(nil, fileOps, 2, func(st []step) {
		addX("coresymdir", "the same with the real core.Core as consumer", st, false, true, true, false)
	})
	recX(nil, []string{opSwap, opSwapRm}, 3, func(st []step) {
		addX("coresym", "the configured path is a symbolic link that is re-pointed; the consumer is the real core.Core", st, true, true, false, len(st) == 3)
	})
	extra := func(r *vcommon.Run) (int64, int64, int64, string) {
		r.Set("fsnotify_conformance_runs", validated)
		return 0, 0, 0, fmt.Sprintf("scenarios = all sequences of <=%d operations over %v (regular file) and of <=3 operations over {swap, swaprm, unlink, other} (watched path is a symbolic link) with virtual gaps %v before each; the event model was validated against the real fsnotify in %d runs", maxLen, opKinds, gaps, validated)
	}
	vexplore.MainWith("C38", scn, []string{
		"fsnotify is replaced by a fake watcher fed by the harness; its event model is checked against the real fsnotify at start-up (set of (name, op) per operation)",
		"time is virtual; file system calls (Stat, EvalSymlinks, ReadFile) are real",
		"symlink mode: the link is re-pointed atomically (temporary link renamed over it) to a new target in a sub-directory; in-place writes to the target (invisible to a watcher of the link's directory) are not in the alphabet",
	}, extra)
}
