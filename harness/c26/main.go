// C26: segment file names encode path and start instant losslessly.
//
// Engine B. The real recordstore.Path.Encode (what the recorder calls) produces the name of every
// (format, path name, instant, time.Local) of a finite alphabet; the real Path.Decode is asked to
// recognize it the two ways the repository does:
//
//	mode F (FindSegments / fixedPathHasSegments): format with %path replaced by the path name
//	mode R (regexpPathFindPathsWithSegments):     format with %path as a placeholder, then IsValidPathName
//
// and the answers are compared with the reference model of c26lib (whole-name parser written from the
// statement). For the "only if" half every name is deviated once (suffix, child of a directory named like
// the segment, prefix directory, digit removed / duplicated, a field set out of its range, file moved one
// directory down) and additionally offered to mode F of every OTHER path name of the alphabet.
//
// history.go adds the history dimension: formats that differ only in the order of equally shaped
// specifiers, used one after the other in fresh subprocesses (Encode/Decode must not depend on which
// formats were used before in the process).
package main

import (
	"fmt"
	"os"
	"path/filepath"
	"sort"
	"strings"
	"sync"
	"time"

	"github.com/bluenviron/mediamtx/internal/conf"
	"github.com/bluenviron/mediamtx/internal/recordstore"
	"github.com/bluenviron/mediamtx/internal/zzverif/c26lib"
	"github.com/bluenviron/mediamtx/internal/zzverif/vcommon"
)

type format struct {
	name string
	rp   string // recordPath as in the configuration
	rf   conf.RecordFormat
}

const root = "/r"

var formats = []format{
	{"default", root + "/%path/%Y-%m-%d_%H-%M-%S-%f", conf.RecordFormatFMP4},
	{"default-ts", root + "/%path/%Y-%m-%d_%H-%M-%S-%f", conf.RecordFormatMPEGTS},
	{"unix-f", root + "/%path/%s-%f", conf.RecordFormatFMP4},
	{"compact-z", root + "/%path/%Y%m%d%H%M%S%f%z", conf.RecordFormatFMP4},
	{"underscore", root + "/%path_%Y-%m-%d_%H-%M-%S-%f", conf.RecordFormatFMP4},
	{"date-dirs", root + "/%Y/%m/%d/%path/%H-%M-%S-%f", conf.RecordFormatFMP4},
	{"metachars-z", root + "/rec+(1)[x]{2}|^$*?.v/%path/%Y-%m-%d_%H-%M-%S-%f_%z", conf.RecordFormatFMP4},
	{"no-f", root + "/%path/%Y-%m-%d_%H-%M-%S", conf.RecordFormatFMP4},
	{"unix-only", root + "/%path/%s", conf.RecordFormatFMP4},
}

var pathNames = []string{
	"a",
	"a/b",
	"a.b",
	"cam-1",
	"a_2024-01-01_00-00-00-000000",       // look-alike for "underscore"
	"a/2024-01-01_00-00-00-000000.mp4",   // a directory named like a segment of "a" (default)
	"a/1700000000-000000.mp4",            // same for unix-f
	"x/r/a",                              // repeats the record root: /r/x/r/a/...
	"2024/01/01/a",                       // look-alike for date-dirs
	"a/20240101000000000000Z.mp4",        // compact-z
	"a/2024-01-01_00-00-00.mp4",          // no-f
	"a/1700000000.mp4",                   // unix-only
	"a/2024-01-01_00-00-00-000000.ts",    // default-ts
	"a/2024-01-01_00-00-00-000000_Z.mp4", // metachars-z
}

type candidate struct {
	dev  string
	name string
}

// implR / implF: what the repository's callers do around Decode.
func implR(absFormat string, name string) (bool, recordstore.Path) {
	var pa recordstore.Path
	if !pa.Decode(absFormat, name) {
		return false, pa
	}
	if conf.IsValidPathName(pa.Path) != nil {
		return false, pa
	}
	return true, pa
}

func implF(absFormat string, pathName string, name string) (bool, recordstore.Path) {
	var pa recordstore.Path
	ok := pa.Decode(strings.ReplaceAll(absFormat, "%path", pathName), name)
	return ok, pa
}

func candStr(cs []c26lib.Cand) string {
	s := make([]string, len(cs))
	for i, c := range cs {
		s[i] = c.String()
	}
	sort.Strings(s)
	return strings.Join(s, " | ")
}

func containsInstant(cs []c26lib.Cand, path string, checkPath bool, t time.Time) bool {
	for _, c := range cs {
		if checkPath && c.Path != path {
			continue
		}
		if c.Contains(t) {
			return true
		}
	}
	return false
}

func digitPositions(s string, from int) []int {
	var out []int
	for i := from; i < len(s); i++ {
		if s[i] >= '0' && s[i] <= '9' {
			out = append(out, i)
		}
	}
	return out
}

// classify names the symptom of a disagreement from what the implementation decoded:
// the name of the decoded (path, instant) is a proper prefix / suffix / infix of the candidate, or the
// candidate has the shape of a produced name with a field outside its range.
func classify(toks []c26lib.Tok, cand string, fixedPath string, pa recordstore.Path, producible bool) string {
	p := pa.Path
	if fixedPath != "" {
		p = fixedPath
	}
	enc := c26lib.ModelEncode(toks, p, pa.Start)
	switch {
	case enc == cand:
		return "same-name"
	case strings.HasPrefix(cand, enc):
		return "trailing-text-ignored"
	case strings.HasSuffix(cand, enc):
		return "leading-text-ignored"
	case strings.Contains(cand, enc):
		return "leading-and-trailing-text-ignored"
	}
	if producible {
		return "other-path-or-instant"
	}
	if len(c26lib.ParseLax(toks, cand, fixedPath)) != 0 {
		return "field-out-of-range"
	}
	return "other"
}

func main() {
	if os.Getenv(histEnv) != "" {
		histWorker()
		return
	}
	r := vcommon.Start("C26", "exploration")
	thorough := r.Thorough()
	zones := c26lib.Zones(thorough)
	instants := c26lib.Instants(thorough)
	// instants whose names are also deviated ("only if" half); digit deviations for the first two of them
	negInstants := map[string]int{"modern-subus": 2, "epoch+1s": 1, "rome-overlap-2nd": 1}
	if thorough {
		negInstants = map[string]int{"modern-subus": 2, "epoch+1s": 2, "rome-overlap-2nd": 1, "year-9999": 1, "leap-day": 1, "unix-1000000000": 1}
	}
	r.Rule = "all (time.Local zone x record path format x path name x start instant): real Encode -> real Decode in mode F and mode R vs the whole-name reference parser; " +
		"plus, for 3 of the instants (6 thorough), every single deviation of the name (suffix, child, prefix, field out of range, one directory down, extension, each of .-_ replaced by x; for 1 instant (2 thorough) every digit removed/duplicated) " +
		"and the name offered to mode F of every other path; distinct = (format, zone, mode, kind of case, outcome, ambiguity class). " +
		"History phase (Encode/Decode must be pure functions of (format, name)): formats = the 9 + every order of %Y %m %d, of %H %M %S and (quick: identity and the 10 exchanges of two; thorough: all 120 orders) of %m %d %H %M %S with identical literal text; " +
		"histories of format uses, each in a fresh subprocess: ordered pairs in both orders (inside a same-shape class: all when the class is small, else the class's first format with every other; thorough: all pairs of the quick alphabet), " +
		"thorough sequences of three inside small classes, the whole alphabet forwards and backwards, single formats; a use = real Encode + Decode F/R of 2 paths x 2 instants + Decode of the names written under the other formats of the history; " +
		"every result vs the reference parser and vs the answer of the same call when its format is the first one used in a process"
	for _, p := range pathNames {
		c26lib.CheckPathNameRule(p)
	}

	type job struct {
		zi, fi, pi, ii int
	}
	// violations are collected here and handed to vcommon at the end so that the reported example of
	// every class is the first one in enumeration order, whatever the goroutine interleaving
	type vrec struct {
		order int64
		what  string
		rep   any
		count int
	}
	var seenMu sync.Mutex
	seen := map[string]*vrec{}
	violAt := func(order int64, key string, rep any, what func() string) {
		seenMu.Lock()
		defer seenMu.Unlock()
		v := seen[key]
		if v == nil {
			v = &vrec{order: order + 1}
			seen[key] = v
		}
		v.count++
		if order < v.order {
			v.order, v.what, v.rep = order, what(), rep
		}
	}

	// the histories (history.go) run in subprocesses beside the main enumeration; they are judged after it
	histDone := make(chan func())
	go func() {
		histDone <- historyPhase(r, thorough, violAt)
	}()

	for zi, z := range zones {
		// time.Local is a package variable read by Decode and time.Unix: set it while nothing runs.
		time.Local = z.Loc
		var jobs []job
		for fi := range formats {
			for pi := range pathNames {
				for ii := range instants {
					jobs = append(jobs, job{zi, fi, pi, ii})
				}
			}
		}
		vcommon.Parallel(len(jobs), func(k int) {
			j := jobs[k]
			order := (int64(zi)*10000000 + int64(k)) * 10000
			viol := func(key string, rep any, what func() string) {
				order++
				violAt(order, key, rep, what)
			}
			f := formats[j.fi]
			p := pathNames[j.pi]
			in := instants[j.ii]
			t := in.T.In(time.Local) // the recorder's instants carry time.Local
			absFormat, _ := filepath.Abs(recordstore.PathAddExtension(f.rp, f.rf))
			toks := c26lib.Tokenize(absFormat)

			// the recorder: recorderInstance.initialize + segment creation
			pathFormat2 := recordstore.PathAddExtension(strings.ReplaceAll(f.rp, "%path", p), f.rf)
			name := recordstore.Path{Start: t}.Encode(pathFormat2)
			if m := c26lib.ModelEncode(toks, p, t); m != name {
				vcommon.Harness("reference encoding %q differs from the recorder's %q (format %s)", m, name, f.rp)
			}
			rep := map[string]any{"zone": z.Name, "recordPath": f.rp, "recordFormat": string(f.rf), "path": p,
				"instant": in.T.Format(time.RFC3339Nano), "name": name}
			want := t.Truncate(time.Microsecond)
			unamb := c26lib.Unambiguous(toks, t, time.Local) && c26lib.Has(toks, 'f')
			ambClass := "exact"
			if !c26lib.Has(toks, 'f') {
				ambClass = "second-granular"
			} else if !unamb {
				ambClass = "dst-overlap"
			}
			unixDigits := len(fmt.Sprint(t.Unix()))

			// ---- "if" half -------------------------------------------------------------------------
			modelF := c26lib.Parse(toks, name, p, time.Local)
			modelR := c26lib.Parse(toks, name, "", time.Local)
			if !containsInstant(modelF, p, true, want) || !containsInstant(modelR, p, true, want) {
				vcommon.Harness("reference parser does not recover (%q,%s) from %q", p, in.T, name)
			}
			check := func(mode string, ok bool, pa recordstore.Path, model []c26lib.Cand) {
				r.Eval(1)
				fixed := ""
				if mode == "F" {
					fixed = p
				}
				if !ok {
					key := "produced-name-not-recognized:" + f.name
					if c26lib.Has(toks, 's') && unixDigits != 10 {
						key = "produced-name-not-recognized:unix-seconds-not-10-digits"
					}
					viol(key, rep, func() string {
						return fmt.Sprintf("mode %s: name %q produced by the recorder for path %q at %s (zone %s, recordPath %q) is not recognized",
							mode, name, p, in.T.Format(time.RFC3339Nano), z.Name, f.rp)
					})
					r.Distinct(fmt.Sprintf("%s|%s|%s|not-recognized|%s", f.name, z.Name, mode, ambClass))
					return
				}
				paths := map[string]bool{}
				for _, c := range model {
					paths[c.Path] = true
				}
				good := false
				switch {
				case mode == "R" && len(paths) == 1 && pa.Path != p:
					good = false
				case unamb && len(paths) == 1:
					good = pa.Start.Equal(want)
				default:
					// must be one of the (path, instant) the name denotes
					good = containsInstant(model, pa.Path, mode == "R", pa.Start)
				}
				if !good {
					cl := classify(toks, name, fixed, pa, true)
					if cl == "other-path-or-instant" || cl == "same-name" {
						cl += ":" + f.name + ":" + ambClass
					}
					viol("misdecoded:"+cl, rep, func() string {
						return fmt.Sprintf("mode %s: name %q produced for path %q at %s decodes to (%q, %s) (zone %s, recordPath %q); the name denotes %s",
							mode, name, p, in.T.Format(time.RFC3339Nano), pa.Path, pa.Start.UTC().Format(time.RFC3339Nano), z.Name, f.rp, candStr(model))
					})
					r.Distinct(fmt.Sprintf("%s|%s|%s|misdecoded|%s", f.name, z.Name, mode, ambClass))
					return
				}
				r.Distinct(fmt.Sprintf("%s|%s|%s|ok|%s", f.name, z.Name, mode, ambClass))
			}
			okF, paF := implF(absFormat, p, name)
			check("F", okF, paF, modelF)
			okR, paR := implR(absFormat, name)
			check("R", okR, paR, modelR)
			if j.zi == 1 && j.fi == 0 && j.pi < 2 && j.ii >= 5 && j.ii < 9 {
				r.Sample(map[string]any{"zone": z.Name, "recordPath": f.rp, "path": p, "instant": in.T.Format(time.RFC3339Nano),
					"name": name, "recognizedF": okF, "recognizedR": okR, "decodedPath": paR.Path,
					"decodedStart": paR.Start.UTC().Format(time.RFC3339Nano), "class": ambClass})
			}

			// ---- "only if" half --------------------------------------------------------------------
			level := negInstants[in.Name]
			if level == 0 {
				return
			}
			var cands []candidate
			add := func(dev, n string) { cands = append(cands, candidate{dev, n}) }
			add("suffix", name+".bak")
			add("suffix", name+".tmp")
			add("suffix", name+"x")
			add("suffix", name+"~")
			add("child-of-dir-named-like-segment", name+"/child")
			add("child-of-dir-named-like-segment", name+"/x.mp4")
			add("prefix-dir", "/x"+name)
			add("prefix-dir", "/mnt"+name)
			add("root-repeated-below-root", root+"/x"+name)
			add("root-repeated-below-root", root+"/"+p+"/x"+name)
			dir, base := filepath.Split(name)
			add("one-directory-down", dir+"sub/"+base)
			add("one-directory-down", dir+"x/"+p+"/"+base)
			add("extension-changed", strings.TrimSuffix(name, filepath.Ext(name))+".mp3")
			add("extension-changed", strings.TrimSuffix(name, filepath.Ext(name)))
			for pos := len(root); pos < len(name); pos++ {
				if strings.IndexByte(".-_", name[pos]) >= 0 {
					add("separator-replaced", name[:pos]+"x"+name[pos+1:])
				}
			}
			// field values the recorder never writes
			fl := c26lib.Fields(t)
			oor := func(kv ...string) {
				f2 := map[byte]string{}
				for k, x := range fl {
					f2[k] = x
				}
				for i := 0; i < len(kv); i += 2 {
					if !c26lib.Has(toks, kv[i][0]) {
						return
					}
					f2[kv[i][0]] = kv[i+1]
				}
				add("field-out-of-range", c26lib.EncodeFields(toks, p, f2))
			}
			oor("m", "13")
			oor("m", "00")
			oor("d", "32")
			oor("d", "00")
			oor("H", "24")
			oor("M", "60")
			oor("S", "60")
			oor("m", "02", "d", "30")
			// days that do not exist in their month although every field is inside its own range
			// (the model decides: February 29th of the instant's year is a produced name in a leap year)
			oor("m", "02", "d", "29")
			oor("Y", "2023", "m", "02", "d", "29")
			oor("Y", "2100", "m", "02", "d", "29")
			oor("m", "02", "d", "31")
			oor("m", "04", "d", "31")
			oor("m", "06", "d", "31")
			oor("m", "09", "d", "31")
			oor("m", "11", "d", "31")
			if level >= 2 {
				for _, pos := range digitPositions(name, len(root)) {
					add("digit-removed", name[:pos]+name[pos+1:])
					add("digit-duplicated", name[:pos+1]+name[pos:])
				}
			}

			verdict := func(dev, mode, fixed, n string, ok bool, pa recordstore.Path, model []c26lib.Cand) {
				r.Eval(1)
				rep2 := map[string]any{"zone": z.Name, "recordPath": f.rp, "recordFormat": string(f.rf), "mode": mode, "modeFpath": fixed,
					"candidate": n, "derivedFrom": name, "deviation": dev}
				switch {
				case ok && len(model) == 0:
					cl := classify(toks, n, fixed, pa, false)
					if cl == "other" || cl == "same-name" {
						cl += ":" + f.name + ":" + dev
					}
					viol("nonproducible-recognized:"+cl, rep2, func() string {
						return fmt.Sprintf("mode %s(%s): %q is recognized as a segment (path %q, start %s) but no (path, instant) produces that whole name under recordPath %q [%s of %q]",
							mode, fixed, n, pa.Path, pa.Start.UTC().Format(time.RFC3339Nano), f.rp, dev, name)
					})
					r.Distinct(fmt.Sprintf("%s|%s|%s|%s|recognized-nonproducible|%s", f.name, z.Name, mode, dev, cl))
				case !ok && len(model) != 0:
					key := "producible-not-recognized:" + f.name + ":" + dev
					for _, c := range model {
						if c26lib.Has(toks, 's') && !c.Any && len(fmt.Sprint(c.T.Unix())) != 10 {
							key = "produced-name-not-recognized:unix-seconds-not-10-digits"
						}
					}
					viol(key, rep2, func() string {
						return fmt.Sprintf("mode %s(%s): %q is the name of %s under recordPath %q but is not recognized", mode, fixed, n, candStr(model), f.rp)
					})
					r.Distinct(fmt.Sprintf("%s|%s|%s|%s|producible-rejected", f.name, z.Name, mode, dev))
				case ok:
					if !containsInstant(model, pa.Path, mode == "R", pa.Start) {
						cl := classify(toks, n, fixed, pa, true)
						if cl == "other-path-or-instant" || cl == "same-name" {
							cl += ":" + f.name + ":" + dev
						}
						viol("misdecoded:"+cl, rep2, func() string {
							return fmt.Sprintf("mode %s(%s): %q decodes to (%q, %s) but denotes %s (recordPath %q)", mode, fixed, n, pa.Path,
								pa.Start.UTC().Format(time.RFC3339Nano), candStr(model), f.rp)
						})
						r.Distinct(fmt.Sprintf("%s|%s|%s|%s|misdecoded|%s", f.name, z.Name, mode, dev, cl))
					} else {
						r.Distinct(fmt.Sprintf("%s|%s|%s|%s|both-accept", f.name, z.Name, mode, dev))
					}
				default:
					r.Distinct(fmt.Sprintf("%s|%s|%s|%s|both-reject", f.name, z.Name, mode, dev))
				}
			}
			for _, c := range cands {
				ok, pa := implF(absFormat, p, c.name)
				verdict(c.dev, "F", p, c.name, ok, pa, c26lib.Parse(toks, c.name, p, time.Local))
				ok, pa = implR(absFormat, c.name)
				verdict(c.dev, "R", "", c.name, ok, pa, c26lib.Parse(toks, c.name, "", time.Local))
			}
			// the produced name offered to the other paths' mode F
			for _, q := range pathNames {
				if q == p {
					continue
				}
				ok, pa := implF(absFormat, q, name)
				verdict("segment-of-another-path", "F", q, name, ok, pa, c26lib.Parse(toks, name, q, time.Local))
			}
		})
		r.Set("zones_done", zi+1)
	}
	time.Local = time.UTC
	(<-histDone)() // judge the histories
	for key, v := range seen {
		r.Violation(key, v.what, v.rep)
		for i := 1; i < v.count; i++ {
			r.Violation(key, "", nil)
		}
	}
	r.Set("zones", len(zones))
	r.Set("formats", len(formats))
	r.Set("path_names", len(pathNames))
	r.Set("instants", len(instants))
	r.Exhaustive = true
	r.Assumptions = []string{
		"the recorder's start instants carry time.Local (time.Now/time.Unix; no .UTC() in the tree)",
		"years 1000..9999, unix seconds 1..10^12-1; wall-clock readings inside a DST gap count as producible (the zone setting may have changed), their instant is not judged",
		"inside a DST overlap (format without %z/%s) and for formats without %f the decoded instant only has to be one the name denotes",
		"conf.IsValidPathName is the definition of a path name (C06 judges it)",
		"format alphabet: 9 accepted record path formats incl. regexp metacharacters in literals; formats with two %path or with both %s and %Y are outside the alphabet",
		"history phase: one zone (Europe/Rome), 2 paths, 2 instants; histories longer than 3 only as the two whole-alphabet sequences; process-wide state is reset by starting a new process, state kept outside the process (files) is not considered",
	}
	r.Finish()
}
