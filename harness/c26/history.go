// C26, history dimension: Encode/Decode must be pure functions of (format, name, time.Local).
//
// The main enumeration uses every format many times in ONE process, but each of its formats has its own
// shape. A piece of process-wide state inside Decode/Encode (a cache of compiled decoders, of group
// mappings, of replacers ...) shows only when two DIFFERENT formats that some key cannot tell apart are
// used one after the other. This phase enumerates operation histories:
//
//	alphabet   "use of record path format X" = what the repository does with one recordPath setting:
//	           Encode the name of (path, instant) like the recorder, Decode it in mode F and mode R; and
//	           offer to X the names written under the formats used before (they live in the same tree)
//	formats    the 9 formats of the main phase + every permutation of same-width specifiers with
//	           identical literal text (%Y %m %d in the date part; %H %M %S in the time part; %m %d %H %M %S
//	           across a uniformly separated name), so that formats exist that differ ONLY in the order of
//	           equally shaped specifiers
//	histories  every single format, every ordered pair (both orders), every sequence of three without
//	           stutter inside a small same-shape class, and the whole alphabet forwards and backwards
//
// Every history runs in a fresh subprocess of this binary (the only way to reset process-wide state without
// knowing where it is). Every result is compared (1) with the whole-name reference parser of c26lib, which
// has no history, and (2) with the result the same call gave in the process where its format was the first
// and only one used.
package main

import (
	"bytes"
	"encoding/json"
	"fmt"
	"os"
	"os/exec"
	"path/filepath"
	"strings"
	"sync/atomic"
	"time"

	"github.com/bluenviron/mediamtx/internal/conf"
	"github.com/bluenviron/mediamtx/internal/recordstore"
	"github.com/bluenviron/mediamtx/internal/zzverif/c26lib"
	"github.com/bluenviron/mediamtx/internal/zzverif/vcommon"
)

const histEnv = "VERIF_C26_HISTORY_WORKER"

// the zone of the history phase (zones are the main phase's dimension); a non-zero offset keeps %z non-trivial
const histZone = "Europe/Rome"

type hfmt struct {
	format
	family string
}

var histPaths = []string{"a", "a/b"}

// two instants, read in Europe/Rome:
// 2021-03-12 04:05:06.000007 (every two-digit field distinct and <= 12: any exchange of fields is another valid date)
// 2026-09-21 19:48:59.345678 (exchanged fields fall outside their range)
var histInstants = []string{"2021-03-12T03:05:06.000007Z", "2026-09-21T17:48:59.345678Z"}

func permutations(items []string) [][]string {
	if len(items) <= 1 {
		return [][]string{append([]string{}, items...)}
	}
	var out [][]string
	for i := range items {
		rest := append(append([]string{}, items[:i]...), items[i+1:]...)
		for _, p := range permutations(rest) {
			out = append(out, append([]string{items[i]}, p...))
		}
	}
	return out
}

// transpositions: the identity and every exchange of two positions.
func transpositions(items []string) [][]string {
	out := [][]string{append([]string{}, items...)}
	for i := 0; i < len(items); i++ {
		for j := i + 1; j < len(items); j++ {
			p := append([]string{}, items...)
			p[i], p[j] = p[j], p[i]
			out = append(out, p)
		}
	}
	return out
}

func fill(template string, vals []string) string {
	for i, v := range vals {
		template = strings.ReplaceAll(template, fmt.Sprintf("{%d}", i), "%"+v)
	}
	return template
}

// histFormats: the alphabet of the history phase (deterministic order, no duplicates).
func histFormats(thorough bool) []hfmt {
	var out []hfmt
	have := map[string]bool{}
	add := func(family, name, rp string, rf conf.RecordFormat) {
		k := rp + "|" + string(rf)
		if have[k] {
			return
		}
		have[k] = true
		out = append(out, hfmt{format{name, rp, rf}, family})
	}
	for _, f := range formats {
		add("base", f.name, f.rp, f.rf)
	}
	for _, p := range permutations([]string{"Y", "m", "d"}) {
		add("date-order", "date-"+strings.Join(p, ""), fill(root+"/%path/{0}-{1}-{2}_%H-%M-%S-%f", p), conf.RecordFormatFMP4)
	}
	for _, p := range permutations([]string{"H", "M", "S"}) {
		add("time-order", "time-"+strings.Join(p, ""), fill(root+"/%path/%Y-%m-%d_{0}-{1}-{2}-%f", p), conf.RecordFormatFMP4)
	}
	// the identity first (the "hub" of its shape class), then every exchange of two fields; thorough: all 120 orders.
	// The quick alphabet is a prefix of the thorough one.
	cross := transpositions([]string{"m", "d", "H", "M", "S"})
	if thorough {
		cross = append(cross, permutations([]string{"m", "d", "H", "M", "S"})...)
	}
	for _, p := range cross {
		add("field-order", "fields-"+strings.Join(p, ""), fill(root+"/%path/%Y-{0}-{1}-{2}-{3}-{4}-%f", p), conf.RecordFormatFMP4)
	}
	return out
}

func (f hfmt) abs() string {
	a, _ := filepath.Abs(recordstore.PathAddExtension(f.rp, f.rf))
	return a
}

// shape: what is left of a format when specifiers of equal width are not told apart.
func shape(toks []c26lib.Tok) string {
	var sb strings.Builder
	for _, t := range toks {
		switch t.Kind {
		case 'L':
			sb.WriteString("L" + t.Lit)
		case 'm', 'd', 'H', 'M', 'S':
			sb.WriteString("\x002")
		default:
			sb.WriteString("\x00" + string(t.Kind))
		}
	}
	return sb.String()
}

type hreq struct {
	Thorough bool
	Seq      []int
	// OfferAll: offer the names of every other format of the alphabet (the fresh-process reference run)
	OfferAll bool
}

type hres struct {
	Step  int
	Fi    int    // format in use
	Src   int    // format under which the offered name was written (== Fi: the recorder's own name)
	Pi    int    // path
	Ii    int    // instant
	Mode  string // E (Encode), F, R
	Name  string
	OK    bool
	Path  string
	Start string // RFC3339Nano, UTC
	Panic string
}

func (h hres) callKey() string {
	return fmt.Sprintf("%d|%d|%d|%d|%s", h.Fi, h.Src, h.Pi, h.Ii, h.Mode)
}

func (h hres) outcome() string {
	if h.Panic != "" {
		return "panic: " + h.Panic
	}
	if h.Mode == "E" {
		return h.Name
	}
	if !h.OK {
		return "not recognized"
	}
	return fmt.Sprintf("(%q, %s)", h.Path, h.Start)
}

func histInstant(ii int, loc *time.Location) time.Time {
	t, err := time.Parse(time.RFC3339Nano, histInstants[ii])
	if err != nil {
		panic(err)
	}
	return t.In(loc)
}

// histWorker: one history in this process. Reads a hreq from stdin, writes []hres to stdout.
func histWorker() {
	var req hreq
	if err := json.NewDecoder(os.Stdin).Decode(&req); err != nil {
		fmt.Fprintln(os.Stderr, "bad request:", err)
		os.Exit(3)
	}
	loc, err := time.LoadLocation(histZone)
	if err != nil {
		fmt.Fprintln(os.Stderr, err)
		os.Exit(3)
	}
	time.Local = loc
	fs := histFormats(req.Thorough)
	var out []hres
	decode := func(res hres, absFormat string) {
		p, _ := vcommon.Recover(func() {
			var ok bool
			var pa recordstore.Path
			if res.Mode == "F" {
				ok, pa = implF(absFormat, histPaths[res.Pi], res.Name)
			} else {
				ok, pa = implR(absFormat, res.Name)
			}
			res.OK, res.Path = ok, pa.Path
			if ok {
				res.Start = pa.Start.UTC().Format(time.RFC3339Nano)
			}
		})
		if p != nil {
			res.Panic = vcommon.Short(fmt.Sprint(p), 200)
		}
		out = append(out, res)
	}
	for step, fi := range req.Seq {
		f := fs[fi]
		absFormat := f.abs()
		// the recorder's own names
		for pi, p := range histPaths {
			for ii := range histInstants {
				t := histInstant(ii, loc)
				res := hres{Step: step, Fi: fi, Src: fi, Pi: pi, Ii: ii, Mode: "E"}
				pp, _ := vcommon.Recover(func() {
					pathFormat2 := recordstore.PathAddExtension(strings.ReplaceAll(f.rp, "%path", p), f.rf)
					res.Name = recordstore.Path{Start: t}.Encode(pathFormat2)
				})
				if pp != nil {
					res.Panic = vcommon.Short(fmt.Sprint(pp), 200)
					out = append(out, res)
					continue
				}
				out = append(out, res)
				res.Mode = "F"
				decode(res, absFormat)
				res.Mode = "R"
				decode(res, absFormat)
			}
		}
		// the names lying in the same tree under the other formats of this history (OfferAll: of the alphabet).
		// They are written with the reference encoding: offering a name does not "use" its format in the repository.
		var offer []int
		inOffer := map[int]bool{fi: true}
		if req.OfferAll {
			for o := range fs {
				if !inOffer[o] {
					inOffer[o] = true
					offer = append(offer, o)
				}
			}
		} else {
			for _, o := range req.Seq {
				if !inOffer[o] {
					inOffer[o] = true
					offer = append(offer, o)
				}
			}
		}
		for _, o := range offer {
			otoks := c26lib.Tokenize(fs[o].abs())
			for pi, p := range histPaths {
				for ii := range histInstants {
					name := c26lib.ModelEncode(otoks, p, histInstant(ii, loc))
					decode(hres{Step: step, Fi: fi, Src: o, Pi: pi, Ii: ii, Mode: "F", Name: name}, absFormat)
					decode(hres{Step: step, Fi: fi, Src: o, Pi: pi, Ii: ii, Mode: "R", Name: name}, absFormat)
				}
			}
		}
	}
	if err := json.NewEncoder(os.Stdout).Encode(out); err != nil {
		os.Exit(3)
	}
	os.Exit(0)
}

func runHistWorker(req hreq) []hres {
	in, _ := json.Marshal(req)
	var lastErr string
	for attempt := 0; attempt < 3; attempt++ {
		cmd := exec.Command(os.Args[0])
		cmd.Env = append(os.Environ(), histEnv+"=1", "GOMAXPROCS=2")
		cmd.Stdin = bytes.NewReader(in)
		var stdout, stderr bytes.Buffer
		cmd.Stdout, cmd.Stderr = &stdout, &stderr
		err := cmd.Run()
		var out []hres
		if err == nil {
			if e := json.Unmarshal(stdout.Bytes(), &out); e == nil {
				return out
			} else {
				err = e
			}
		}
		lastErr = fmt.Sprintf("%v: %s", err, vcommon.Short(stderr.String(), 300))
		if _, isExit := err.(*exec.ExitError); isExit {
			break // the worker itself failed: not an environment problem, do not retry
		}
	}
	vcommon.Harness("C26 history worker for sequence %v failed: %s", req.Seq, lastErr)
	return nil
}

// historyPhase enumerates the histories and runs them (this part touches neither time.Local nor the clock, so it may
// run beside the main enumeration, which sets time.Local); the returned function judges every result.
func historyPhase(r *vcommon.Run, thorough bool, violAt func(order int64, key string, rep any, what func() string)) (judge func()) {
	loc, err := time.LoadLocation(histZone)
	if err != nil {
		vcommon.Harness("%v", err)
	}
	fs := histFormats(thorough)
	n := len(fs)
	toks := make([][]c26lib.Tok, n)
	shapes := make([]string, n)
	classes := map[string][]int{}
	var classOrder []string
	for i, f := range fs {
		toks[i] = c26lib.Tokenize(f.abs())
		shapes[i] = shape(toks[i])
		if _, ok := classes[shapes[i]]; !ok {
			classOrder = append(classOrder, shapes[i])
		}
		classes[shapes[i]] = append(classes[shapes[i]], i)
	}
	sameShapePairs := 0
	for _, s := range classOrder {
		k := len(classes[s])
		sameShapePairs += k * (k - 1)
	}
	if sameShapePairs == 0 {
		vcommon.Harness("history alphabet has no two formats of the same shape")
	}

	// ---- the histories ------------------------------------------------------------------------------
	type hist struct {
		kind string
		seq  []int
	}
	var hists []hist
	// ordered pairs (always both orders):
	//   inside a shape class of at most maxAll formats: all; inside a larger class: the class's first format (the
	//   base format / the identity order) with every other;
	//   thorough: also all pairs of the quick alphabet, whatever the shapes
	maxAll := 4
	if thorough {
		maxAll = 8
	}
	coreN := len(histFormats(false))
	havePair := map[[2]int]bool{}
	pair := func(a, b int) {
		if a != b && !havePair[[2]int{a, b}] {
			havePair[[2]int{a, b}] = true
			hists = append(hists, hist{"pair", []int{a, b}})
		}
	}
	for _, s := range classOrder {
		c := classes[s]
		for _, a := range c {
			for _, b := range c {
				if len(c) <= maxAll || a == c[0] || b == c[0] {
					pair(a, b)
				}
			}
		}
	}
	if thorough {
		for a := 0; a < coreN; a++ {
			for b := 0; b < coreN; b++ {
				pair(a, b)
			}
		}
	}
	// thorough: sequences of three without stutter (A B A, A B C ...) inside the shape classes of at most 8 formats,
	// with the class's first format in first or second place when the class has more than 4
	triples := 0
	for _, s := range classOrder {
		c := classes[s]
		if !thorough || len(c) < 2 || len(c) > 8 {
			continue
		}
		for _, x := range c {
			for _, y := range c {
				for _, z := range c {
					if x != y && y != z && (len(c) <= 4 || x == c[0] || y == c[0]) {
						hists = append(hists, hist{"triple", []int{x, y, z}})
						triples++
					}
				}
			}
		}
	}
	fwd := make([]int, n)
	bwd := make([]int, n)
	for i := 0; i < n; i++ {
		fwd[i], bwd[i] = i, n-1-i
	}
	hists = append(hists, hist{"all-forwards", fwd}, hist{"all-backwards", bwd})
	// single-format processes (offered the names of the whole alphabet): thorough every format, quick the formats
	// that begin no other history (step 0 of every history is a first use in a fresh process as well)
	begins := map[int]bool{}
	for _, h := range hists {
		begins[h.seq[0]] = true
	}
	singles := 0
	for i := 0; i < n; i++ {
		if thorough || !begins[i] {
			hists = append(hists, hist{"single", []int{i}})
			singles++
		}
	}

	results := make([][]hres, len(hists))
	vcommon.Parallel(len(hists), func(hi int) {
		results[hi] = runHistWorker(hreq{Thorough: thorough, Seq: hists[hi].seq, OfferAll: hists[hi].kind == "single" || len(hists[hi].seq) == n})
	})

	// ---- the fresh-process reference: the answers of step 0 (history order decides which one when several
	// histories begin with the same format; all the others are compared with it like any later step)
	fresh := make([]map[string]hres, n)
	for i := range fresh {
		fresh[i] = map[string]hres{}
	}
	for hi := range hists {
		for _, h := range results[hi] {
			if h.Step != 0 {
				break
			}
			if _, ok := fresh[h.Fi][h.callKey()]; !ok {
				fresh[h.Fi][h.callKey()] = h
			}
		}
	}
	for i := range fresh {
		if len(fresh[i]) == 0 {
			vcommon.Harness("format %d begins no history", i)
		}
	}
	return func() {
		var noRef atomic.Int64

		const orderBase = int64(1) << 60 // after every class of the main phase
		vcommon.Parallel(len(hists), func(hi int) {
			hs := hists[hi]
			res := results[hi]
			seqNames := make([]string, len(hs.seq))
			for i, fi := range hs.seq {
				seqNames[i] = fs[fi].rp
			}
			for k, h := range res {
				r.Eval(1)
				order := orderBase + int64(hi)*10000000 + int64(k)
				f := fs[h.Fi]
				p := histPaths[h.Pi]
				t := histInstant(h.Ii, loc)
				// relation of the format in use to the formats used before it in this history
				rel := "first-format-of-process"
				for _, prev := range hs.seq[:h.Step] {
					if prev == h.Fi {
						continue
					}
					if shapes[prev] == shapes[h.Fi] {
						rel = "after-format-of-same-shape"
						break
					}
					rel = "after-format-of-other-shape"
				}
				rep := map[string]any{"zone": histZone, "history": seqNames, "step": h.Step, "recordPath": f.rp, "recordFormat": string(f.rf),
					"path": p, "instant": histInstants[h.Ii], "mode": h.Mode, "name": h.Name, "nameWrittenUnder": fs[h.Src].rp, "got": h.outcome()}
				viol := func(kind string, what func() string) {
					violAt(order, "history:"+kind+":"+f.family+":"+rel, rep, what)
					r.Distinct(fmt.Sprintf("hist|%s|%s|%s|%s|%s|%s", hs.kind, f.family, fs[h.Src].family, rel, h.Mode, kind))
				}
				ctx := func() string {
					seqNames := seqNames
					if len(seqNames) > 4 {
						seqNames = []string{seqNames[0], seqNames[1], fmt.Sprintf("... %d more (see replay) ...", len(seqNames)-3), fs[h.Fi].rp}
					}
					return fmt.Sprintf("history %s (fresh process, zone %s), step %d, recordPath %q, mode %s", strings.Join(seqNames, " ; "), histZone, h.Step, f.rp, h.Mode)
				}

				// (2) purity: same call, same answer as in the process where this format was the only one used
				// (judged when the reference model has nothing to object)
				pure := func() {
					if fr, ok := fresh[h.Fi][h.callKey()]; !ok {
						// this name was never offered to this format at a step 0: the model alone judges
						noRef.Add(1)
					} else if fr.outcome() != h.outcome() || fr.Name != h.Name {
						rep["freshProcess"] = fr.outcome()
						viol("differs-from-fresh-process", func() string {
							return fmt.Sprintf("%s: %q gives %s, but %s when this format is the only one used in the process", ctx(), h.Name, h.outcome(), fr.outcome())
						})
					}
				}

				// (1) the reference model
				if h.Panic != "" {
					viol("panic", func() string { return fmt.Sprintf("%s: %q: %s", ctx(), h.Name, h.Panic) })
					continue
				}
				if h.Mode == "E" {
					if m := c26lib.ModelEncode(toks[h.Fi], p, t); m != h.Name {
						viol("encoded-name-differs", func() string {
							return fmt.Sprintf("%s: the recorder names (%q, %s) %q, the format says %q", ctx(), p, histInstants[h.Ii], h.Name, m)
						})
					} else {
						r.Distinct(fmt.Sprintf("hist|%s|%s|%s|E|ok", hs.kind, f.family, rel))
						pure()
					}
					continue
				}
				fixed := ""
				if h.Mode == "F" {
					fixed = p
				}
				model := c26lib.Parse(toks[h.Fi], h.Name, fixed, loc)
				var got time.Time
				if h.OK {
					var perr error
					got, perr = time.Parse(time.RFC3339Nano, h.Start)
					if perr != nil {
						vcommon.Harness("bad worker instant %q", h.Start)
					}
				}
				own := h.Src == h.Fi
				outcome := ""
				switch {
				case own && !h.OK:
					viol("produced-name-not-recognized", func() string {
						return fmt.Sprintf("%s: name %q produced by the recorder for path %q at %s is not recognized", ctx(), h.Name, p, histInstants[h.Ii])
					})
					continue
				case h.OK && len(model) == 0:
					viol("nonproducible-recognized", func() string {
						return fmt.Sprintf("%s: %q (written under %q) is recognized as %s but no (path, instant) produces that whole name", ctx(), h.Name, fs[h.Src].rp, h.outcome())
					})
					continue
				case !h.OK && len(model) != 0:
					viol("producible-not-recognized", func() string {
						return fmt.Sprintf("%s: %q is the name of %s but is not recognized", ctx(), h.Name, candStr(model))
					})
					continue
				case !h.OK:
					outcome = "both-reject"
				default:
					paths := map[string]bool{}
					for _, c := range model {
						paths[c.Path] = true
					}
					good := containsInstant(model, h.Path, h.Mode == "R", got)
					if own {
						// the history instants are outside DST overlaps and the history formats with %f identify them
						if h.Mode == "R" && len(paths) == 1 && h.Path != p {
							good = false
						}
						if c26lib.Has(toks[h.Fi], 'f') && len(paths) == 1 && !got.Equal(t.Truncate(time.Microsecond)) {
							good = false
						}
					}
					if !good {
						viol("misdecoded", func() string {
							return fmt.Sprintf("%s: %q (written under %q for path %q at %s) decodes to %s; the name denotes %s",
								ctx(), h.Name, fs[h.Src].rp, p, histInstants[h.Ii], h.outcome(), candStr(model))
						})
						continue
					}
					outcome = "both-accept"
				}
				srcRel := "own-name"
				if !own {
					srcRel = "name-of-other-shape"
					if shapes[h.Src] == shapes[h.Fi] {
						srcRel = "name-of-same-shape"
					}
				}
				r.Distinct(fmt.Sprintf("hist|%s|%s|%s|%s|%s|%s", hs.kind, f.family, rel, h.Mode, srcRel, outcome))
				pure()
			}
		})
		r.Set("history_formats", n)
		r.Set("history_same_shape_ordered_pairs", sameShapePairs)
		r.Set("history_processes", len(hists))
		r.Set("history_single_format_processes", singles)
		r.Set("history_results_without_first_use_reference", noRef.Load())
		r.Set("history_ordered_pairs", len(havePair))
		r.Set("history_triples", triples)
	}
}
