// Part C: the request logger when the request body cannot be read completely (and when the
// response cannot be written).
//
// Every request shape of part B (spelling/form/method/multiplicity cases, ordered pairs, and
// the length dimension) is combined with every element of a small alphabet of body behaviours:
// complete bodies around the logger's peek limit, and read errors of several kinds at offset 0,
// after k bytes, exactly at / next to / beyond the peek limit, delivered alone or together with
// the last bytes. Three drivers:
//   - dumpRequest(req) with a faulting io.Reader body (the returned dump is scanned),
//   - the logging handler (handlerLogger.ServeHTTP) with a faulting body, an inner handler that
//     reads the body and answers, and a ResponseWriter that may fail (the log is scanned),
//   - a real httpp.Server on a unix socket with raw clients that announce a body (Content-Length
//     or chunked), send a part of it and half-close / close / send a malformed chunk, or go away
//     before the response (the log of each phase is scanned).
//
// Oracle (unchanged): no secret value of the request in any captured log line or dump.
package main

import (
	"bufio"
	"bytes"
	"context"
	"errors"
	"fmt"
	"io"
	"net"
	"net/http"
	"os"
	"path/filepath"
	"sort"
	"strconv"
	"strings"
	"sync"
	"sync/atomic"
	"syscall"
	"time"

	"github.com/bluenviron/mediamtx/internal/protocols/httpp"
	"github.com/bluenviron/mediamtx/internal/zzverif/httplib"
	"github.com/bluenviron/mediamtx/internal/zzverif/vcommon"
)

// ---------------------------------------------------------------------------------------
// request shapes (those of part B)

type shape struct {
	desc    string
	method  string
	marker  string
	headers [][2]string // exact spelling, in the order sent (credential header(s) and X-Harmless)
	name    string      // canonical name of the (first) credential header
	// secrets
	canaries []string // literal strings (spelling/form alphabet)
	vals     []int    // numbered secrets of the canary set (length dimension)
	lenIdx   int      // index in plan.lenCases, -1 for the spelling/form alphabet
	size     int      // bytes of header values (to visit the large ones first)
}

func buildShapes(set *canarySet, plan *bPlan) []*shape {
	var out []*shape
	for _, c := range enumCases(plan.names) {
		sh := &shape{desc: c.desc, method: c.method, marker: c.visible, headers: c.headers, canaries: c.canaries, lenIdx: -1,
			name: http.CanonicalHeaderKey(c.headers[0][0])}
		out = append(out, sh)
	}
	for i, c := range plan.lenCases {
		f := hdrForms[c.form]
		sh := &shape{desc: c.desc, method: "GET", marker: c.marker, vals: c.vals, lenIdx: i, name: http.CanonicalHeaderKey(c.name)}
		if i%2 == 1 {
			sh.method = "POST"
		}
		for _, v := range c.vals {
			sh.headers = append(sh.headers, [2]string{c.name, f.pre + set.Text(v) + f.suf})
			sh.size += set.vals[v].n
		}
		sh.headers = append(sh.headers, [2]string{"X-Harmless", c.marker})
		out = append(out, sh)
	}
	return out
}

// head returns the request line and headers as sent on the wire (without the framing header and the final CRLF).
func (sh *shape) head(path string) string {
	var b strings.Builder
	fmt.Fprintf(&b, "%s %s HTTP/1.1\r\nHost: c07.test\r\n", sh.method, path)
	for _, h := range sh.headers {
		b.WriteString(h[0] + ": " + h[1] + "\r\n")
	}
	b.WriteString("Content-Type: application/sdp\r\n")
	return b.String()
}

type leak struct {
	header string // canonical header name the secret was sent in
	what   string
	ctx    string
}

// canaryLeak reports a literal canary of the shape found at text[i:].
func (sh *shape) canaryLeak(can, text string, i int) leak {
	hn := sh.headers[0][0]
	for _, h := range sh.headers {
		if strings.Contains(h[1], can) {
			hn = h[0]
		}
	}
	st := strings.LastIndex(text[:i], "[conn ") // from the start of the log line when that is near
	if st < 0 || i-st > 400 {
		st = max(0, i-160)
	}
	return leak{http.CanonicalHeaderKey(hn), fmt.Sprintf("the value %q of header %q", vcommon.Short(can, 60), hn),
		text[st:min(len(text), i+len(can)+40)]}
}

// shortLeaks: secrets too short to be searched for in free text (1..7 digits) are looked for in the header's own
// line of whatever was dumped for this request.
func (sh *shape) shortLeaks(set *canarySet, text string) []leak {
	var out []leak
	for _, v := range sh.vals {
		if set.vals[v].n >= chunkW {
			continue
		}
		sec := set.Text(v)
		for _, hl := range strings.Split(text, "\n") {
			hl = strings.TrimRight(hl, "\r")
			k, val, ok := strings.Cut(hl, ":")
			if ok && http.CanonicalHeaderKey(strings.TrimSpace(k)) == sh.name && strings.Contains(val, sec) {
				out = append(out, leak{sh.name, fmt.Sprintf("the %d-byte secret sent in %s", len(sec), set.vals[v].where), hl})
				break
			}
		}
	}
	return out
}

// leaks returns the secrets of the shape that are in text (the dump / log of this request alone).
func (sh *shape) leaks(set *canarySet, plan *bPlan, text string) []leak {
	var out []leak
	for _, can := range sh.canaries {
		if i := strings.Index(text, can); i >= 0 {
			out = append(out, sh.canaryLeak(can, text, i))
			break
		}
	}
	if len(sh.vals) > 0 {
		for _, h := range set.Scan([]byte(text)) {
			cv := set.vals[h.v]
			hn := "?"
			if strings.HasPrefix(cv.where, "header ") {
				hn = http.CanonicalHeaderKey(plan.lenCases[cv.owner].name)
			}
			out = append(out, leak{hn, fmt.Sprintf("bytes [%d,%d) of the %d-byte secret sent in %s", h.off, h.off+h.n, cv.n, cv.where),
				text[max(0, h.pos-160):min(len(text), h.pos+60)]})
		}
	}
	return append(out, sh.shortLeaks(set, text)...)
}

// canaryIndex finds the literal canaries of all shapes in one pass over a large log: every canary is either
// "CANARYhdr<digits><letter>" or a whole header value "Basic <base64>" (which contains no raw canary).
type canaryIndex struct {
	raw   map[string]int // canary -> shape
	basic map[string]int
}

func newCanaryIndex(shapes []*shape) *canaryIndex {
	ix := &canaryIndex{raw: map[string]int{}, basic: map[string]int{}}
	for si, sh := range shapes {
		for _, can := range sh.canaries {
			switch {
			case strings.HasPrefix(can, "CANARYhdr"):
				ix.raw[can] = si
			case strings.HasPrefix(can, "Basic "):
				ix.basic[can] = si
			case !strings.Contains(can, "CANARYhdr"):
				vcommon.Harness("part C: canary %q has an unexpected form", can)
			}
		}
	}
	return ix
}

// find returns, per shape, the first literal canary found in text.
func (ix *canaryIndex) find(shapes []*shape, text string) map[int]leak {
	out := map[int]leak{}
	visit := func(prefix string, tokenChar func(c byte) bool, m map[string]int) {
		for from := 0; ; {
			i := strings.Index(text[from:], prefix)
			if i < 0 {
				return
			}
			i += from
			j := i + len(prefix)
			for j < len(text) && tokenChar(text[j]) {
				j++
			}
			// the canary may be followed by token characters of the surrounding text: try every prefix of the token
			for k := min(j, i+len(prefix)+64); k > i+len(prefix); k-- {
				if si, ok := m[text[i:k]]; ok {
					if _, dup := out[si]; !dup {
						out[si] = shapes[si].canaryLeak(text[i:k], text, i)
					}
					break
				}
			}
			from = i + len(prefix)
		}
	}
	visit("CANARYhdr", func(c byte) bool { return c >= '0' && c <= '9' || c >= 'a' && c <= 'z' }, ix.raw)
	visit("Basic ", func(c byte) bool {
		return c >= '0' && c <= '9' || c >= 'a' && c <= 'z' || c >= 'A' && c <= 'Z' || c == '+' || c == '/' || c == '='
	}, ix.basic)
	return out
}

// ---------------------------------------------------------------------------------------
// body behaviours (function level)

type bodyBeh struct {
	id        string
	size      int   // bytes the body delivers when nothing fails
	announced int   // Content-Length announced (-1: chunked)
	failAt    int   // offset at which the read error occurs (-1: never)
	err       error // the read error
	together  bool  // the error (or the final EOF) is returned by the Read call that delivers the last bytes
	noBody    bool  // http.NoBody
	class     string
}

const bodyPattern = "v=0 harmless body line, nothing to hide here\r\n" // no upper-case letters, no digits 2-7: never a canary candidate

var patternBuf = strings.Repeat(bodyPattern, 4096/len(bodyPattern)+3) // >= 4096 + len(bodyPattern) bytes

type faultBody struct {
	beh    *bodyBeh
	pos    int
	fired  bool
	closed bool
}

func (b *faultBody) Read(p []byte) (int, error) {
	if len(p) == 0 {
		return 0, nil
	}
	end := b.beh.size
	if b.beh.failAt >= 0 {
		end = b.beh.failAt
	}
	final := func() error {
		if b.beh.failAt >= 0 {
			b.fired = true
			return b.beh.err
		}
		return io.EOF
	}
	if b.pos >= end {
		return 0, final()
	}
	n := min(len(p), end-b.pos, 4096)
	copy(p[:n], patternBuf[b.pos%len(bodyPattern):])
	b.pos += n
	if b.pos == end && b.beh.together {
		return n, final()
	}
	return n, nil
}

func (b *faultBody) Close() error { b.closed = true; return nil }

func bodyBehaviours(limit int) []*bodyBeh {
	var out []*bodyBeh
	out = append(out, &bodyBeh{id: "complete-nobody", noBody: true, failAt: -1, class: "body-complete"})
	for _, n := range []int{13, limit - 1, limit, limit + 1, 2*limit + 1} {
		out = append(out, &bodyBeh{id: fmt.Sprintf("complete-%d", n), size: n, announced: n, failAt: -1, class: "body-complete"})
	}
	for _, n := range []int{13, limit + 1} {
		out = append(out, &bodyBeh{id: fmt.Sprintf("complete-%d-eof-with-data", n), size: n, announced: n, failAt: -1, together: true, class: "body-complete"})
	}
	kinds := []struct {
		id        string
		err       error
		announced int
	}{
		{"unexpected-eof", io.ErrUnexpectedEOF, 3 * limit},
		{"conn-reset", &net.OpError{Op: "read", Net: "tcp", Err: os.NewSyscallError("read", syscall.ECONNRESET)}, 3 * limit},
		{"read-timeout", &net.OpError{Op: "read", Net: "tcp", Err: os.ErrDeadlineExceeded}, 3 * limit},
		{"read-after-close", http.ErrBodyReadAfterClose, 3 * limit},
		{"malformed-chunk", errors.New("invalid byte in chunk length"), -1},
	}
	for _, k := range kinds {
		for _, at := range []int{0, 5} {
			out = append(out, &bodyBeh{id: fmt.Sprintf("%s-at-%d", k.id, at), size: 3 * limit, announced: k.announced, failAt: at, err: k.err, class: "body-read-error"})
		}
	}
	more := []struct {
		at       int
		together bool
		beyond   bool
	}{
		{1, false, false}, {5, true, false}, {limit - 1, false, false}, {limit, false, false}, {limit, true, false},
		{limit + 1, true, false}, // the Read call that delivers the last byte the logger asks for also returns the error
		{limit + 1, false, true}, {limit + 2, false, true}, {2 * limit, false, true},
	}
	for _, m := range more {
		b := &bodyBeh{id: fmt.Sprintf("unexpected-eof-at-%d", m.at), size: 3 * limit, announced: 3 * limit, failAt: m.at, err: io.ErrUnexpectedEOF,
			together: m.together, class: "body-read-error"}
		if m.together {
			b.id += "-with-data"
		}
		if m.beyond {
			b.class = "body-read-error-beyond-peek"
		}
		out = append(out, b)
	}
	return out
}

// ---------------------------------------------------------------------------------------
// response behaviours (function level)

type respBeh struct {
	id      string
	kind    int // 0: status only; 1: 201 + application/sdp body (recorded by the logger); 2: 200 + text/plain body (size only)
	failAt  int // response body offset at which Write fails (-1: never)
	short   bool
	faulted bool
}

var respBehaviours = []*respBeh{
	{id: "sdp-201", kind: 1, failAt: -1},
	{id: "status-only-200", kind: 0, failAt: -1},
	{id: "text-200", kind: 2, failAt: -1},
	{id: "sdp-201/write-error-at-0", kind: 1, failAt: 0, faulted: true},
	{id: "sdp-201/short-write-at-100", kind: 1, failAt: 100, short: true, faulted: true},
	{id: "sdp-201/write-error-at-second-write", kind: 1, failAt: 300, faulted: true},
	{id: "text-200/write-error-at-0", kind: 2, failAt: 0, faulted: true},
	{id: "text-200/short-write-at-100", kind: 2, failAt: 100, short: true, faulted: true},
	{id: "text-200/write-error-at-second-write", kind: 2, failAt: 300, faulted: true},
}

type faultWriter struct {
	beh    *respBeh
	h      http.Header
	status int
	wrote  int
	fired  bool
}

func (w *faultWriter) Header() http.Header { return w.h }
func (w *faultWriter) WriteHeader(s int)   { w.status = s }
func (w *faultWriter) Write(p []byte) (int, error) {
	if w.status == 0 {
		w.status = 200
	}
	if w.beh.failAt >= 0 && (w.fired || w.wrote+len(p) > w.beh.failAt) {
		n := 0
		if w.beh.short && !w.fired {
			n = w.beh.failAt - w.wrote
		}
		w.wrote += n
		w.fired = true
		return n, &net.OpError{Op: "write", Net: "tcp", Err: os.NewSyscallError("write", syscall.EPIPE)}
	}
	w.wrote += len(p)
	return len(p), nil
}

func innerHandler(rb *respBeh) http.Handler {
	return http.HandlerFunc(func(w http.ResponseWriter, r *http.Request) {
		io.Copy(io.Discard, r.Body) //nolint:errcheck
		switch rb.kind {
		case 0:
			w.WriteHeader(http.StatusOK)
		case 1, 2:
			status := http.StatusCreated
			w.Header().Set("Content-Type", "application/sdp")
			if rb.kind == 2 {
				w.Header().Set("Content-Type", "text/plain")
				status = http.StatusOK
			}
			w.WriteHeader(status)
			piece := []byte(strings.Repeat(bodyPattern, 7)[:300])
			for i := 0; i < 2; i++ {
				if _, err := w.Write(piece); err != nil {
					return
				}
			}
		}
	})
}

// ---------------------------------------------------------------------------------------

type cViol struct {
	order     int
	key, what string
	rep       map[string]any
}

type cStats struct {
	mu       sync.Mutex
	outcomes map[string]map[string]int // behaviour -> outcome -> count
}

func (s *cStats) add(beh, outcome string) {
	s.mu.Lock()
	if s.outcomes == nil {
		s.outcomes = map[string]map[string]int{}
	}
	if s.outcomes[beh] == nil {
		s.outcomes[beh] = map[string]int{}
	}
	s.outcomes[beh][outcome]++
	s.mu.Unlock()
}

func dumpOutcome(text, marker string) string {
	switch {
	case strings.Contains(text, marker):
		return "dump-shows-the-headers"
	case strings.TrimSpace(text) == "":
		return "nothing-dumped"
	}
	return "dump-without-the-harmless-header"
}

func partC(r *vcommon.Run, tmp string, set *canarySet, plan *bPlan) {
	limit := httpp.VerifC07MaxRequestBodySizeToLog()
	if limit < 64 || limit > 1<<24 {
		vcommon.Harness("part C: peek limit of the request logger is %d: alphabet not applicable", limit)
	}
	shapes := buildShapes(set, plan)
	order := make([]int, len(shapes)) // large requests first
	for i := range order {
		order[i] = i
	}
	sort.SliceStable(order, func(a, b int) bool { return shapes[order[a]].size > shapes[order[b]].size })

	t0 := time.Now()
	nFn := partCFunctions(r, set, plan, shapes, order, limit)
	t1 := time.Now()
	nWire := partCWire(r, tmp, set, plan, shapes, order, limit)
	fmt.Fprintf(os.Stderr, "[c07] part C: %d function-level calls %.1fs, %d requests over real connections %.1fs\n",
		nFn, t1.Sub(t0).Seconds(), nWire, time.Since(t1).Seconds())
	r.Set("body_fault_request_shapes", len(shapes))
	r.Set("request_logger_peek_limit", limit)
}

// partCFunctions drives dumpRequest and the logging handler directly.
func partCFunctions(r *vcommon.Run, set *canarySet, plan *bPlan, shapes []*shape, order []int, limit int) int {
	bodies := bodyBehaviours(limit)
	// combinations for the logging handler: every body behaviour with a plain response, and every response behaviour
	// (including writer errors) with no body, a small complete body and a body failing after 5 bytes
	type combo struct {
		b *bodyBeh
		w *respBeh
	}
	var combos []combo
	for _, b := range bodies {
		combos = append(combos, combo{b, respBehaviours[0]})
	}
	for _, b := range bodies {
		if b.id == "complete-nobody" || b.id == "complete-13" || b.id == "unexpected-eof-at-5" {
			for _, w := range respBehaviours[1:] {
				combos = append(combos, combo{b, w})
			}
		}
	}
	viols := make([][]cViol, len(shapes))
	stats := &cStats{}
	var nCalls, nFired, nWFired atomic.Int64
	distinct := make([]map[string]bool, len(shapes))

	mkReq := func(base *http.Request, b *bodyBeh) (*http.Request, *faultBody) {
		req := base.Clone(context.Background())
		var fb *faultBody
		switch {
		case b.noBody:
			req.Body = http.NoBody
			req.ContentLength = 0
		default:
			fb = &faultBody{beh: b}
			req.Body = fb
			req.ContentLength = int64(b.announced)
			if b.announced >= 0 {
				req.Header.Set("Content-Length", strconv.Itoa(b.announced))
			} else {
				req.TransferEncoding = []string{"chunked"}
			}
		}
		return req, fb
	}

	httplib.RunN(len(shapes), 32, func(oi int) {
		si := order[oi]
		sh := shapes[si]
		raw := sh.head("/some/path?x=1") + "\r\n"
		base, err := http.ReadRequest(bufio.NewReaderSize(strings.NewReader(raw), 4096))
		if err != nil {
			vcommon.Harness("part C: request %q is not parsed by net/http: %v", sh.desc, err)
		}
		base.RemoteAddr = "192.0.2.7:50000"
		dist := map[string]bool{}
		distinct[si] = dist
		report := func(ord int, driver, class, behID string, lk leak) {
			viols[si] = append(viols[si], cViol{ord, "request-dump-discloses|" + lk.header + "|" + driver + "|" + class,
				fmt.Sprintf("%s, request body behaviour %q: the log/dump contains %s (%s)", driver, behID, lk.what, sh.desc),
				map[string]any{"driver": driver, "case": sh.desc, "behaviour": behID, "request_head": vcommon.Short(raw, 600),
					"leaked": lk.what, "log_context": vcommon.Short(lk.ctx, 500)}})
		}

		// driver 1: dumpRequest
		for bi, b := range bodies {
			req, fb := mkReq(base, b)
			out := string(httpp.VerifC07DumpRequest(req))
			nCalls.Add(1)
			if fb != nil && fb.fired {
				nFired.Add(1)
			}
			oc := dumpOutcome(out, sh.marker)
			if b.class == "body-complete" && oc != "dump-shows-the-headers" {
				vcommon.Harness("part C: dumpRequest of %q with body %q does not show the harmless header: dump not observed", sh.desc, b.id)
			}
			stats.add("dumpRequest/"+b.id, oc)
			dist["bodyfault|dumpRequest|"+b.id+"|"+oc+"|"+sh.name] = true
			for _, lk := range sh.leaks(set, plan, out) {
				report(bi, "dumpRequest", b.class, b.id, lk)
			}
		}
		// driver 2: the logging handler
		for ci, c := range combos {
			req, fb := mkReq(base, c.b)
			lg := &httplib.Logger{Capture: true}
			fw := &faultWriter{beh: c.w, h: http.Header{}}
			httpp.VerifC07HandlerLogger(innerHandler(c.w), lg).ServeHTTP(fw, req)
			nCalls.Add(1)
			if c.b.failAt >= 0 {
				if !fb.fired {
					vcommon.Harness("part C: body behaviour %q: the read error was never delivered (%s)", c.b.id, sh.desc)
				}
				nFired.Add(1)
			}
			if c.w.faulted {
				if !fw.fired {
					vcommon.Harness("part C: response behaviour %q: the write error was never delivered (%s)", c.w.id, sh.desc)
				}
				nWFired.Add(1)
			}
			lines := lg.Lines()
			reqLine := ""
			for _, l := range lines {
				if strings.Contains(l, "[c->s]") {
					reqLine = l[strings.Index(l, "[c->s]")+6:]
				}
			}
			oc := dumpOutcome(reqLine, sh.marker)
			if c.b.class == "body-complete" && oc != "dump-shows-the-headers" {
				vcommon.Harness("part C: the logging handler does not show the harmless header of %q with body %q: dump not observed", sh.desc, c.b.id)
			}
			id := c.b.id + " -> " + c.w.id
			stats.add("handlerLogger/"+id, oc)
			dist["bodyfault|handlerLogger|"+id+"|"+oc+"|"+sh.name] = true
			class := c.b.class
			if c.w.faulted {
				class += "+response-write-error"
			}
			for _, lk := range sh.leaks(set, plan, strings.Join(lines, "\n")) {
				report(len(bodies)+ci, "handlerLogger", class, id, lk)
			}
		}
	})

	for si := range shapes {
		sort.SliceStable(viols[si], func(a, b int) bool { return viols[si][a].order < viols[si][b].order })
	}
	// report in the order of the case list (smallest case first), deterministic
	for si := range shapes {
		for _, v := range viols[si] {
			r.Violation(v.key, v.what, v.rep)
		}
		for k := range distinct[si] {
			r.Distinct(k)
		}
	}
	r.Eval(int(nCalls.Load()))
	var ids, rids, cids []string
	for _, b := range bodies {
		ids = append(ids, b.id)
	}
	for _, w := range respBehaviours {
		rids = append(rids, w.id)
	}
	for _, c := range combos {
		cids = append(cids, c.b.id+" -> "+c.w.id)
	}
	r.Set("body_behaviours", ids)
	r.Set("response_behaviours", rids)
	r.Set("handler_combinations", len(cids))
	r.Set("body_fault_function_level_calls", int(nCalls.Load()))
	r.Set("body_read_errors_delivered", int(nFired.Load()))
	r.Set("response_write_errors_delivered", int(nWFired.Load()))
	r.Set("body_fault_function_level_outcomes", stats.outcomes)
	return int(nCalls.Load())
}

// ---------------------------------------------------------------------------------------
// real connections

type wirePhase struct {
	id       string
	framing  string                 // header announcing the body
	sent     func(limit int) []byte // body bytes actually sent
	mode     int                    // 0: half-close then read the response; 1: close at once; 2: keep open and read the response
	path     string
	complete bool // the request is complete: its dump must show the harmless header
	class    string
}

func patternBytes(n int) []byte {
	b := make([]byte, n)
	for i := range b {
		b[i] = bodyPattern[i%len(bodyPattern)]
	}
	return b
}

func chunkedBytes(n int) []byte {
	var b bytes.Buffer
	data := patternBytes(n)
	for len(data) > 0 {
		k := min(len(data), 4096)
		fmt.Fprintf(&b, "%x\r\n", k)
		b.Write(data[:k])
		b.WriteString("\r\n")
		data = data[k:]
	}
	b.WriteString("0\r\n\r\n")
	return b.Bytes()
}

func wirePhases() []wirePhase {
	return []wirePhase{
		{id: "content-length-1000/sent-0/half-close", framing: "Content-Length: 1000\r\n", sent: func(int) []byte { return nil }, class: "body-read-error"},
		{id: "content-length-1000/sent-5/half-close", framing: "Content-Length: 1000\r\n", sent: func(int) []byte { return patternBytes(5) }, class: "body-read-error"},
		{id: "content-length-1000/sent-5/close", framing: "Content-Length: 1000\r\n", sent: func(int) []byte { return patternBytes(5) }, mode: 1, class: "body-read-error"},
		{id: "content-length-3xlimit/sent-limit/half-close", framing: "CL3", sent: func(l int) []byte { return patternBytes(l) }, class: "body-read-error"},
		{id: "content-length-3xlimit/sent-limit+101/half-close", framing: "CL3", sent: func(l int) []byte { return patternBytes(l + 101) }, class: "body-read-error-beyond-peek"},
		{id: "chunked/truncated-mid-chunk/half-close", framing: "Transfer-Encoding: chunked\r\n", sent: func(int) []byte { return []byte("3e8\r\nv=0\r\n") }, class: "body-read-error"},
		{id: "chunked/truncated-in-size-line/half-close", framing: "Transfer-Encoding: chunked\r\n", sent: func(int) []byte { return []byte("3e") }, class: "body-read-error"},
		{id: "chunked/no-last-chunk/half-close", framing: "Transfer-Encoding: chunked\r\n", sent: func(int) []byte { return []byte("5\r\nv=0\r\n\r\n") }, class: "body-read-error"},
		{id: "chunked/malformed-size/open", framing: "Transfer-Encoding: chunked\r\n", sent: func(int) []byte { return []byte("zz\r\nv=0\r\n\r\n0\r\n\r\n") }, mode: 2, class: "body-read-error"},
		{id: "content-length-2xlimit+1/complete", framing: "CL2", sent: func(l int) []byte { return patternBytes(2*l + 1) }, mode: 2, complete: true, class: "body-complete"},
		{id: "chunked-2xlimit+1/complete", framing: "Transfer-Encoding: chunked\r\n", sent: func(l int) []byte { return chunkedBytes(2*l + 1) }, mode: 2, complete: true, class: "body-complete"},
		{id: "complete-13/client-gone-before-response", framing: "Content-Length: 13\r\n", sent: func(int) []byte { return patternBytes(13) }, mode: 1, path: "/big/response?x=1",
			complete: true, class: "body-complete+response-write-error"},
	}
}

func wireDo(sock string, head string, body []byte, mode int) error {
	var conn net.Conn
	var err error
	for attempt := 0; attempt < 50; attempt++ {
		conn, err = net.Dial("unix", sock)
		if err == nil {
			break
		}
		time.Sleep(20 * time.Millisecond) // listen backlog full
	}
	if err != nil {
		return err
	}
	defer conn.Close()
	conn.SetDeadline(time.Now().Add(120 * time.Second)) //nolint:errcheck
	if _, err = conn.Write(append([]byte(head), body...)); err != nil {
		return fmt.Errorf("write: %w", err)
	}
	switch mode {
	case 1:
		return nil
	case 0:
		if err = conn.(*net.UnixConn).CloseWrite(); err != nil {
			return fmt.Errorf("half-close: %w", err)
		}
	}
	res, err := http.ReadResponse(bufio.NewReader(conn), nil)
	if err != nil {
		return fmt.Errorf("no response: %w", err)
	}
	io.Copy(io.Discard, res.Body) //nolint:errcheck
	res.Body.Close()
	if res.StatusCode != http.StatusOK {
		return fmt.Errorf("status %d", res.StatusCode)
	}
	return nil
}

func partCWire(r *vcommon.Run, tmp string, set *canarySet, plan *bPlan, shapes []*shape, order []int, limit int) int {
	lg := &httplib.Logger{Capture: true}
	sock := filepath.Join(tmp, "c.sock")
	var nWriteErr, nBodyErr atomic.Int64
	bigPiece := bytes.Repeat([]byte(bodyPattern), 16384/len(bodyPattern)+1)[:16384]
	s := &httpp.Server{
		Address: "unix://" + sock, ReadTimeout: 120 * time.Second, WriteTimeout: 120 * time.Second, Parent: lg,
		Handler: http.HandlerFunc(func(w http.ResponseWriter, req *http.Request) {
			if _, err := io.Copy(io.Discard, req.Body); err != nil {
				nBodyErr.Add(1)
			}
			w.Header().Set("Content-Type", "text/plain")
			w.WriteHeader(http.StatusOK)
			if req.URL.Path == "/big/response" {
				for i := 0; i < 64; i++ { // 1 MiB: more than the socket buffers hold
					if _, err := w.Write(bigPiece); err != nil {
						nWriteErr.Add(1)
						return
					}
				}
				return
			}
			w.Write([]byte("ok")) //nolint:errcheck
		}),
	}
	must(s.Initialize())

	phases := wirePhases()
	ix := newCanaryIndex(shapes)
	outcomes := map[string]map[string]int{}
	nReq := 0
	var ids []string
	for _, ph := range phases {
		ids = append(ids, ph.id)
		framing := ph.framing
		switch framing {
		case "CL3":
			framing = fmt.Sprintf("Content-Length: %d\r\n", 3*limit)
		case "CL2":
			framing = fmt.Sprintf("Content-Length: %d\r\n", 2*limit+1)
		}
		body := ph.sent(limit)
		path := ph.path
		if path == "" {
			path = "/some/path?x=1"
		}
		lg.Reset()
		tp0 := time.Now()
		var errMu sync.Mutex
		var firstErr error
		httplib.RunN(len(shapes), 96, func(oi int) {
			sh := shapes[order[oi]]
			if err := wireDo(sock, sh.head(path)+framing+"\r\n", body, ph.mode); err != nil {
				errMu.Lock()
				if firstErr == nil {
					firstErr = fmt.Errorf("%s: %w", sh.desc, err)
				}
				errMu.Unlock()
			}
		})
		if firstErr != nil {
			vcommon.Harness("part C, phase %q: request failed: %v", ph.id, firstErr)
		}
		nReq += len(shapes)
		r.Eval(len(shapes))
		// barrier: every request has passed the logging handler (request and response line)
		var lines []string
		deadline := time.Now().Add(60 * time.Second)
		for {
			lines = lg.Lines()
			nIn, nOut := 0, 0
			for _, l := range lines {
				if strings.Contains(l, "] [c->s] ") {
					nIn++
				} else if strings.Contains(l, "] [s->c] ") {
					nOut++
				}
			}
			if nIn == len(shapes) && nOut == len(shapes) {
				break
			}
			if nIn > len(shapes) || nOut > len(shapes) || time.Now().After(deadline) {
				vcommon.Harness("part C, phase %q: %d requests were sent, the logging handler logged %d requests and %d responses", ph.id, len(shapes), nIn, nOut)
			}
			time.Sleep(2 * time.Millisecond)
		}
		tp1 := time.Now()
		all := strings.Join(lines, "\n")
		// which requests were dumped with their headers
		shown := map[string]string{}
		for _, l := range lines {
			if i := strings.Index(l, "X-Harmless: VISIBLE"); i >= 0 {
				m := l[i+len("X-Harmless: "):]
				if j := strings.IndexByte(m, 'z'); j >= 0 {
					shown[m[:j+1]] = l
				}
			}
		}
		oc := map[string]int{}
		nEmpty := 0
		for _, l := range lines {
			if i := strings.Index(l, "] [c->s] "); i >= 0 && strings.TrimSpace(l[i+9:]) == "" {
				nEmpty++
			}
		}
		oc["dump-shows-the-headers"] = len(shown)
		oc["nothing-dumped"] = nEmpty
		outcomes[ph.id] = oc
		if ph.complete && len(shown) != len(shapes) {
			vcommon.Harness("part C, phase %q: only %d of %d complete requests were dumped by the logger (harmless marker missing): dump not observed", ph.id, len(shown), len(shapes))
		}
		// secrets of the length dimension: anywhere in the phase's log
		byShape := map[int][]leak{}
		lenShape := map[int]int{}
		for si, sh := range shapes {
			if sh.lenIdx >= 0 {
				lenShape[sh.lenIdx] = si
			}
		}
		for _, h := range set.Scan([]byte(all)) {
			cv := set.vals[h.v]
			if !strings.HasPrefix(cv.where, "header ") {
				vcommon.Harness("part C: the request log contains a configuration secret (%s)", cv.where)
			}
			si := lenShape[cv.owner]
			byShape[si] = append(byShape[si], leak{shapes[si].name, fmt.Sprintf("bytes [%d,%d) of the %d-byte secret sent in %s", h.off, h.off+h.n, cv.n, cv.where),
				all[max(0, h.pos-300):min(len(all), h.pos+60)]})
		}
		for si, lk := range ix.find(shapes, all) {
			byShape[si] = append(byShape[si], lk)
		}
		for si, sh := range shapes { // short secrets: in the header's own line of the request's own dump
			if d, ok := shown[sh.marker]; ok && len(sh.vals) > 0 {
				byShape[si] = append(byShape[si], sh.shortLeaks(set, d)...)
			}
		}
		for si, sh := range shapes {
			for _, lk := range byShape[si] {
				r.Violation("request-dump-discloses|"+lk.header+"|server|"+ph.class,
					fmt.Sprintf("real httpp.Server, client behaviour %q: the log contains %s (%s)", ph.id, lk.what, sh.desc),
					map[string]any{"driver": "httpp.Server on a unix socket", "case": sh.desc, "client_behaviour": ph.id,
						"request_sent": vcommon.Short(sh.head(path)+framing+"\r\n"+string(body), 700), "bytes_of_body_sent": len(body),
						"leaked": lk.what, "log_context": vcommon.Short(lk.ctx, 500)})
			}
			shownS := "nothing-dumped-or-no-headers"
			if _, ok := shown[sh.marker]; ok {
				shownS = "dump-shows-the-headers"
			}
			r.Distinct("bodyfault|server|" + ph.id + "|" + shownS + "|" + sh.name)
		}
		if os.Getenv("VERIF_C07_TIMING") != "" {
			fmt.Fprintf(os.Stderr, "[c07] wire phase %-50s requests %.2fs, scan of %d log bytes %.2fs\n", ph.id, tp1.Sub(tp0).Seconds(), len(all), time.Since(tp1).Seconds())
		}
	}
	s.Close()
	fmt.Fprintf(os.Stderr, "[c07] part C wire: inner handler saw %d body read errors, %d response write errors\n", nBodyErr.Load(), nWriteErr.Load())
	r.Set("wire_client_behaviours", ids)
	r.Set("wire_requests", nReq)
	r.Set("wire_dump_outcomes", outcomes)
	return nReq
}
