// C07: secrets are not disclosed by API responses or debug dumps.
//
// Engine B. Part A: every configuration of a bounded family (0..3 internal users x password
// encoding, or deprecated publishPass/readPass on defaults / a static path / a regexp path x
// encoding) is loaded through conf.Load, served by a real api.API and read through every
// parameter-less GET route, every page of config/paths/list and config/paths/get of every
// path; no response may contain a canary, every password position must hold one fixed
// placeholder, and the live configuration must be deep-equal to an independently loaded twin
// afterwards. Part B: every credential header x spelling x value form is sent through a real
// httpp.Server with a capturing logger; no log line may contain the value.
// Both parts also enumerate the LENGTH of the secret (t-1, t, t+1 for every power of two and
// of ten up to 64 KiB, more in the thorough tier) with secrets made of distinct 8-byte chunks
// (canary.go), so that a part of a secret shown anywhere (truncation, "first N bytes", tail)
// is recognised, not only the whole value.
package main

import (
	"bytes"
	"crypto/sha256"
	"encoding/base64"
	"encoding/json"
	"fmt"
	"net/http"
	"net/url"
	"os"
	"reflect"
	"sort"
	"strings"
	"sync"
	"time"

	"github.com/gin-gonic/gin"

	"github.com/bluenviron/mediamtx/internal/api"
	"github.com/bluenviron/mediamtx/internal/auth"
	"github.com/bluenviron/mediamtx/internal/conf"
	"github.com/bluenviron/mediamtx/internal/protocols/httpp"
	"github.com/bluenviron/mediamtx/internal/zzverif/httplib"
	"github.com/bluenviron/mediamtx/internal/zzverif/vcommon"
)

type admitAll struct{}

func (admitAll) Authenticate(*auth.Request) (string, *auth.Error) { return "", nil }
func (admitAll) RefreshJWTJWKS()                                  {}

func must(err error) {
	if err != nil {
		vcommon.Harness("%v", err)
	}
}

// ---------------------------------------------------------------------------------------
// canary credentials

var encNames = []string{"unset", "plain", "sha256", "argon2"}

// secret returns the stored credential of encoding enc for canary number n, and the strings
// that must never appear in a response (the stored value, plain or hashed).
func secret(enc int, n int) (stored string, canaries []string) {
	switch enc {
	case 1:
		s := fmt.Sprintf("CANARYplain%dx", n)
		return s, []string{s}
	case 2:
		h := sha256.Sum256([]byte(fmt.Sprintf("plain-%d", n)))
		b := base64.StdEncoding.EncodeToString(h[:])
		return "sha256:" + b, []string{b}
	case 3:
		h := sha256.Sum256([]byte(fmt.Sprintf("argon-%d", n)))
		salt := base64.RawStdEncoding.EncodeToString(h[:16])
		hash := base64.RawStdEncoding.EncodeToString(h[:])
		return "argon2:$argon2id$v=19$m=4096,t=3,p=1$" + salt + "$" + hash, []string{hash, salt}
	}
	return "", nil
}

type secretPos struct {
	where    string // human readable
	stored   string
	canaries []string
	val      int // number in the canary set + 1 when the secret is a length-parametrised one (found by canarySet.Scan, not by canaries)
}

type cfgCase struct {
	name    string
	yaml    string
	secrets []secretPos
	paths   []string
}

func usersConfigs(maxUsers int, encs []int) []cfgCase {
	var out []cfgCase
	var rec func(prefix []int)
	n := 0
	rec = func(prefix []int) {
		c := cfgCase{name: fmt.Sprintf("users%v", prefix), paths: []string{"plainpath", "~^re.*$"}}
		var y strings.Builder
		y.WriteString("rtspAuthMethods: [basic]\n")
		if len(prefix) == 0 {
			y.WriteString("authInternalUsers: []\n")
		} else {
			y.WriteString("authInternalUsers:\n")
		}
		for i, e := range prefix {
			n++
			stored, can := secret(e, n)
			fmt.Fprintf(&y, "- user: usr%d\n  pass: '%s'\n  permissions:\n  - action: publish\n  - action: api\n", i, stored)
			if e != 0 {
				c.secrets = append(c.secrets, secretPos{fmt.Sprintf("authInternalUsers[%d].pass (%s)", i, encNames[e]), stored, can, 0})
			}
		}
		y.WriteString("paths:\n  plainpath:\n    source: publisher\n  '~^re.*$':\n    source: publisher\n")
		c.yaml = y.String()
		out = append(out, c)
		if len(prefix) < maxUsers {
			for _, e := range encs {
				rec(append(append([]int(nil), prefix...), e))
			}
		}
	}
	rec(nil)
	return out
}

// deprecated credentials: 6 positions (defaults / static path / regexp path) x (publishPass, readPass)
func deprecatedConfigs(encs []int) []cfgCase {
	var out []cfgCase
	pos := []string{"pathDefaults.publishPass", "pathDefaults.readPass", "paths[st].publishPass", "paths[st].readPass",
		"paths[~^re.*$].publishPass", "paths[~^re.*$].readPass"}
	idx := make([]int, len(pos))
	n := 100000
	for {
		c := cfgCase{name: fmt.Sprintf("deprecated%v", idx), paths: []string{"st", "~^re.*$"}}
		stored := make([]string, len(pos))
		for i, ei := range idx {
			e := encs[ei]
			if e != 0 {
				n++
				s, can := secret(e, n)
				stored[i] = s
				c.secrets = append(c.secrets, secretPos{pos[i] + " (" + encNames[e] + ")", s, can, 0})
			}
		}
		var y strings.Builder
		y.WriteString("rtspAuthMethods: [basic]\n")
		field := func(indent, key, val, userKey string) {
			if val != "" {
				fmt.Fprintf(&y, "%s%s: '%s'\n", indent, key, val)
				fmt.Fprintf(&y, "%s%s: someuser\n", indent, userKey)
			}
		}
		if stored[0] != "" || stored[1] != "" {
			y.WriteString("pathDefaults:\n")
			field("  ", "publishPass", stored[0], "publishUser")
			field("  ", "readPass", stored[1], "readUser")
		}
		y.WriteString("paths:\n  st:\n    source: publisher\n")
		field("    ", "publishPass", stored[2], "publishUser")
		field("    ", "readPass", stored[3], "readUser")
		y.WriteString("  '~^re.*$':\n    source: publisher\n")
		field("    ", "publishPass", stored[4], "publishUser")
		field("    ", "readPass", stored[5], "readUser")
		c.yaml = y.String()
		out = append(out, c)

		k := len(idx) - 1
		for k >= 0 {
			idx[k]++
			if idx[k] < len(encs) {
				break
			}
			idx[k] = 0
			k--
		}
		if k < 0 {
			break
		}
	}
	return out
}

// lengthConfigs: for every length n, one configuration with two internal users (plain / sha256-form password of
// n bytes) and two configurations with all 6 deprecated positions set to passwords of n bytes (plain and
// sha256-form alternating, both phases), every password a different numbered secret of the canary set.
func lengthConfigs(set *canarySet, lens []int, firstIdx int) []cfgCase {
	var out []cfgCase
	pos := []string{"pathDefaults.publishPass", "pathDefaults.readPass", "paths[st].publishPass", "paths[st].readPass",
		"paths[~^re.*$].publishPass", "paths[~^re.*$].readPass"}
	mk := func(c *cfgCase, where string, n int, sha bool) string {
		enc := "plain"
		if sha {
			enc = "sha256-form"
		}
		where = fmt.Sprintf("%s (%s, %d bytes)", where, enc, n)
		v := set.New(n, where, firstIdx+len(out))
		stored := set.Text(v)
		if sha {
			stored = "sha256:" + stored
		}
		c.secrets = append(c.secrets, secretPos{where: where, stored: stored, canaries: []string{stored}, val: v + 1})
		return stored
	}
	for _, n := range lens {
		c := cfgCase{name: fmt.Sprintf("users-len%d", n), paths: []string{"plainpath", "~^re.*$"}}
		var y strings.Builder
		y.WriteString("rtspAuthMethods: [basic]\nauthInternalUsers:\n")
		for i := 0; i < 2; i++ {
			fmt.Fprintf(&y, "- user: usr%d\n  pass: '%s'\n  permissions:\n  - action: publish\n  - action: api\n", i,
				mk(&c, fmt.Sprintf("authInternalUsers[%d].pass", i), n, i == 1))
		}
		y.WriteString("paths:\n  plainpath:\n    source: publisher\n  '~^re.*$':\n    source: publisher\n")
		c.yaml = y.String()
		out = append(out, c)

		for phase := 0; phase < 2; phase++ {
			c := cfgCase{name: fmt.Sprintf("deprecated-len%d-phase%d", n, phase), paths: []string{"st", "~^re.*$"}}
			stored := make([]string, len(pos))
			for i := range pos {
				stored[i] = mk(&c, pos[i], n, i%2 == phase)
			}
			var y strings.Builder
			y.WriteString("rtspAuthMethods: [basic]\npathDefaults:\n")
			field := func(indent, key, val, userKey string) {
				fmt.Fprintf(&y, "%s%s: '%s'\n%s%s: someuser\n", indent, key, val, indent, userKey)
			}
			field("  ", "publishPass", stored[0], "publishUser")
			field("  ", "readPass", stored[1], "readUser")
			y.WriteString("paths:\n  st:\n    source: publisher\n")
			field("    ", "publishPass", stored[2], "publishUser")
			field("    ", "readPass", stored[3], "readUser")
			y.WriteString("  '~^re.*$':\n    source: publisher\n")
			field("    ", "publishPass", stored[4], "publishUser")
			field("    ", "readPass", stored[5], "readUser")
			c.yaml = y.String()
			out = append(out, c)
		}
	}
	return out
}

// ---------------------------------------------------------------------------------------

type pendingViol struct {
	key, what string
	rep       map[string]any
}

// walkPasswords visits every string value stored under a password key in a decoded JSON value.
func walkPasswords(v any, path string, f func(path, val string)) {
	switch t := v.(type) {
	case map[string]any:
		keys := make([]string, 0, len(t))
		for k := range t {
			keys = append(keys, k)
		}
		sort.Strings(keys)
		for _, k := range keys {
			if k == "pass" || k == "publishPass" || k == "readPass" {
				if s, ok := t[k].(string); ok {
					f(path+"."+k, s)
				}
			}
			walkPasswords(t[k], path+"."+k, f)
		}
	case []any:
		for i, e := range t {
			walkPasswords(e, fmt.Sprintf("%s[%d]", path, i), f)
		}
	}
}

var (
	placeholderMu sync.Mutex
	placeholder   string
)

func partA(r *vcommon.Run, tmp string, client *httplib.Client, set *canarySet) {
	encs := []int{0, 1, 2}
	lens := lengthSet(16, 4)
	if r.Thorough() {
		encs = []int{0, 1, 2, 3}
		lens = lengthSet(17, 5)
	}
	cfgs := usersConfigs(3, []int{0, 1, 2, 3})
	cfgs = append(cfgs, deprecatedConfigs(encs)...)
	nEnum := len(cfgs)
	cfgs = append(cfgs, lengthConfigs(set, lens, len(cfgs))...)
	// visit the large configurations first (they take longest), deterministic
	order := make([]int, 0, len(cfgs))
	for i := len(cfgs) - 1; i >= nEnum; i-- {
		order = append(order, i)
	}
	for i := 0; i < nEnum; i++ {
		order = append(order, i)
	}

	viols := make([][]pendingViol, len(cfgs))
	nSecrets, nResp, nRedacted := 0, 0, 0
	var mu sync.Mutex
	routesSeen := map[string]bool{}

	httplib.RunN(len(cfgs), 32, func(oi int) {
		ci := order[oi]
		c := cfgs[ci]
		add := func(key, what string, rep map[string]any) {
			rep["config"] = c.name
			rep["yaml"] = vcommon.Short(c.yaml, 2000)
			viols[ci] = append(viols[ci], pendingViol{key, what, rep})
		}
		live, err := httplib.LoadConf(tmp, c.yaml)
		if err != nil {
			vcommon.Harness("config %s does not load: %v\n%s", c.name, err, c.yaml)
		}
		twin, err := httplib.LoadConf(tmp, c.yaml)
		must(err)
		if !reflect.DeepEqual(live, twin) {
			vcommon.Harness("config %s: two loads of the same file are not deep-equal (twin comparison unusable)", c.name)
		}
		before, err := json.Marshal(live)
		must(err)
		for _, s := range c.secrets {
			if !bytes.Contains(before, []byte(s.canaries[0])) {
				vcommon.Harness("config %s: canary of %s is not in the live configuration", c.name, s.where)
			}
		}

		a := &api.API{
			Version: "v", Started: time.Now(), Address: "127.0.0.1:0",
			ReadTimeout: conf.Duration(30 * time.Second), WriteTimeout: conf.Duration(30 * time.Second),
			AuthManager: admitAll{}, PathManager: &httplib.PathManager{N: 2, Calls: &httplib.Calls{}},
			Parent: &httplib.Parent{Conf: live, Calls: &httplib.Calls{}},
		}
		must(a.Initialize())
		defer a.Close()
		base := "http://" + api.VerifC07Addr(a).String()

		var urls []string
		for _, rt := range api.VerifC07Routes(a) {
			if rt.Method == "GET" && !strings.ContainsAny(rt.Path, ":*") {
				urls = append(urls, rt.Path)
			}
		}
		sort.Strings(urls)
		for _, ipp := range []string{"1", "2", "3"} {
			for page := 0; page < 4; page++ {
				urls = append(urls, fmt.Sprintf("/v3/config/paths/list?itemsPerPage=%s&page=%d", ipp, page))
			}
		}
		for _, p := range c.paths {
			urls = append(urls, "/v3/config/paths/get/"+url.PathEscape(p))
		}

		for _, u := range urls {
			resp := client.Do(httplib.Req{Method: "GET", URL: base + u})
			r.Eval(1)
			if resp.Err != nil {
				vcommon.Harness("request failed: %v", resp.Err)
			}
			route, _, _ := strings.Cut(u, "?")
			if strings.HasPrefix(route, "/v3/config/paths/get/") {
				route = "/v3/config/paths/get/*name"
			}
			mu.Lock()
			nResp++
			routesSeen[fmt.Sprintf("%s -> %d", route, resp.Status)] = true
			mu.Unlock()
			hay := append([]byte(fmt.Sprint(resp.Header)), resp.Body...)
			for _, h := range set.Scan(hay) {
				cv := set.vals[h.v]
				add("api-response-discloses|"+route+"|"+strings.SplitN(cv.where, " ", 2)[0],
					fmt.Sprintf("GET %s discloses %s: bytes [%d,%d) of the %d-byte secret are in the response", u, cv.where, h.off, h.off+h.n, cv.n),
					map[string]any{"url": u, "secret": cv.where, "status": resp.Status, "secret_length": cv.n, "disclosed_offset": h.off, "disclosed_bytes": h.n,
						"context": vcommon.Short(string(hay[max(0, h.pos-80):min(len(hay), h.pos+80)]), 200)})
			}
			for _, s := range c.secrets {
				if s.val != 0 {
					continue
				}
				for _, can := range s.canaries {
					if bytes.Contains(hay, []byte(can)) {
						add("api-response-discloses|"+route+"|"+strings.SplitN(s.where, " ", 2)[0],
							fmt.Sprintf("GET %s discloses %s: response contains %q", u, s.where, can),
							map[string]any{"url": u, "secret": s.where, "status": resp.Status, "body": vcommon.Short(string(resp.Body), 400)})
					}
				}
			}
			if resp.Status == 200 && strings.HasPrefix(u, "/v3/config/") {
				var v any
				if err := json.Unmarshal(resp.Body, &v); err != nil {
					vcommon.Harness("GET %s: response is not JSON: %v", u, err)
				}
				walkPasswords(v, "", func(path, val string) {
					if val == "" {
						return
					}
					placeholderMu.Lock()
					if placeholder == "" {
						placeholder = val
					}
					ph := placeholder
					placeholderMu.Unlock()
					mu.Lock()
					nRedacted++
					mu.Unlock()
					if val != ph {
						add("placeholder-not-fixed|"+route, fmt.Sprintf("GET %s: password position %s holds %q (%d bytes), not the placeholder %q", u, path, vcommon.Short(val, 80), len(val), ph),
							map[string]any{"url": u, "position": path, "value": vcommon.Short(val, 400), "value_length": len(val)})
					}
				})
			}
		}

		// the live configuration must not have been touched by producing those views
		after, err := json.Marshal(live)
		must(err)
		if !bytes.Equal(before, after) || !reflect.DeepEqual(live, twin) {
			what := "the live configuration differs from its state before the API reads"
			for i := range twin.AuthInternalUsers {
				if i < len(live.AuthInternalUsers) && live.AuthInternalUsers[i].Pass != twin.AuthInternalUsers[i].Pass {
					what += fmt.Sprintf("; authInternalUsers[%d].pass is now %q", i, live.AuthInternalUsers[i].Pass)
				}
			}
			chk := func(where string, l, t *conf.Credential) {
				if (l == nil) != (t == nil) || (l != nil && *l != *t) {
					if l != nil {
						what += fmt.Sprintf("; %s is now %q", where, vcommon.Short(string(*l), 80))
					} else {
						what += fmt.Sprintf("; %s is now unset", where)
					}
				}
			}
			chk("pathDefaults.publishPass", live.PathDefaults.PublishPass, twin.PathDefaults.PublishPass)
			chk("pathDefaults.readPass", live.PathDefaults.ReadPass, twin.PathDefaults.ReadPass)
			for name, tp := range twin.Paths {
				if lp, ok := live.Paths[name]; ok {
					chk("paths["+name+"].publishPass", lp.PublishPass, tp.PublishPass)
					chk("paths["+name+"].readPass", lp.ReadPass, tp.ReadPass)
				}
			}
			add("live-config-modified", what, map[string]any{})
		}
		mu.Lock()
		nSecrets += len(c.secrets)
		mu.Unlock()
		kinds := []string{}
		for _, s := range c.secrets {
			kinds = append(kinds, s.where)
		}
		r.Distinct("config|" + strings.Join(kinds, ","))
	})
	for ci := range cfgs {
		for _, v := range viols[ci] {
			r.Violation(v.key, v.what, v.rep)
		}
	}
	rs := make([]string, 0, len(routesSeen))
	for k := range routesSeen {
		rs = append(rs, k)
	}
	sort.Strings(rs)
	r.Set("configurations", len(cfgs))
	r.Set("configurations_of_the_length_dimension", len(cfgs)-nEnum)
	r.Set("password_lengths", lens)
	r.Set("secret_positions", nSecrets)
	r.Set("api_responses_scanned", nResp)
	r.Set("password_positions_holding_the_placeholder", nRedacted)
	r.Set("placeholder", placeholder)
	r.Set("api_routes_read", rs)
	if nRedacted == 0 || nSecrets == 0 {
		vcommon.Harness("vacuous part A: secrets=%d redacted positions=%d", nSecrets, nRedacted)
	}
	r.Sample(map[string]any{"config": cfgs[nEnum-1].name, "yaml": cfgs[nEnum-1].yaml})
	r.Sample(map[string]any{"config": cfgs[nEnum+3*8].name, "yaml": cfgs[nEnum+3*8].yaml})
}

// ---------------------------------------------------------------------------------------
// part B: request dumps

func spellings(name string) []string {
	alt := []byte(strings.ToLower(name))
	for i := range alt {
		if i%2 == 1 && alt[i] >= 'a' && alt[i] <= 'z' {
			alt[i] -= 32
		}
	}
	out := []string{name, strings.ToLower(name), strings.ToUpper(name), string(alt)}
	seen := map[string]bool{}
	var u []string
	for _, s := range out {
		if !seen[s] {
			seen[s] = true
			u = append(u, s)
		}
	}
	return u
}

var hdrForms = []struct {
	name, pre, suf string
	quantum        int // the secret part's length is a multiple of this
}{
	{"raw", "", "", 1},
	{"bearer", "Bearer ", "", 1},
	{"basic", "Basic ", "", 4},
	{"cookie", "session=", "; other=1", 1},
}

// lenCase is one request of the length dimension: header `name` sent with one or two values, each
// prefix + numbered secret + suffix.
type lenCase struct {
	name, desc string
	form       int
	vals       []int
	marker     string
}

type bPlan struct {
	names, inCode []string
	lens          []int
	lenCases      []lenCase
}

func headerNames() (names, inCode []string) {
	// the statement names Authorization and Cookie "or similar credential header"; the similar ones are fixed here
	names = []string{"Authorization", "Cookie", "Proxy-Authorization", "Set-Cookie", "X-Api-Key", "X-Auth-Token"}
	inCode = httpp.VerifC07HeadersToRedact()
	for _, n := range inCode {
		found := false
		for _, m := range names {
			if m == n {
				found = true
			}
		}
		if !found {
			names = append(names, n)
		}
	}
	return
}

// planB issues the secrets of part B's length dimension: every header name x value form x total value length
// of the length set (single value), and for the raw form also (16-byte value, n-byte value) and (n-byte value,
// 16-byte value) in one request.
func planB(r *vcommon.Run, set *canarySet) *bPlan {
	p := &bPlan{lens: lengthSet(16, 4)}
	if r.Thorough() {
		p.lens = lengthSet(19, 6)
	}
	p.names, p.inCode = headerNames()
	for _, name := range p.names {
		for fi, f := range hdrForms {
			seen := map[int]bool{}
			for _, total := range p.lens {
				n := total - len(f.pre) - len(f.suf)
				if n < 1 {
					continue
				}
				n = (n + f.quantum - 1) / f.quantum * f.quantum
				if seen[n] {
					continue
				}
				seen[n] = true
				total = n + len(f.pre) + len(f.suf)
				where := fmt.Sprintf("header %s (%s, value of %d bytes)", name, f.name, total)
				idx := len(p.lenCases)
				c := lenCase{name: name, form: fi, desc: fmt.Sprintf("%s %s len=%d", name, f.name, total), marker: fmt.Sprintf("VISIBLElen%dz", idx)}
				c.vals = []int{set.New(n, where, idx)}
				p.lenCases = append(p.lenCases, c)
				if fi != 0 {
					continue
				}
				for order := 0; order < 2; order++ {
					idx := len(p.lenCases)
					c := lenCase{name: name, form: fi, desc: fmt.Sprintf("%s %s len=%d dup-order=%d", name, f.name, total, order),
						marker: fmt.Sprintf("VISIBLElen%dz", idx)}
					short := set.New(16, fmt.Sprintf("header %s (%s, value of 16 bytes next to one of %d bytes)", name, f.name, total), idx)
					long := set.New(n, fmt.Sprintf("header %s (%s, value of %d bytes next to one of 16 bytes)", name, f.name, total), idx)
					if order == 0 {
						c.vals = []int{short, long}
					} else {
						c.vals = []int{long, short}
					}
					p.lenCases = append(p.lenCases, c)
				}
			}
		}
	}
	return p
}

// bcase is one request of the spelling/form/method/multiplicity alphabet.
type bcase struct {
	desc     string
	headers  [][2]string
	method   string
	canaries []string // strings that must not be logged
	visible  string
}

// enumCases returns every credential header name x spelling x value form x GET/POST x single/duplicated, plus
// all ordered pairs of different names in one request.
func enumCases(names []string) []bcase {
	var cases []bcase
	n := 0
	forms := func(can string) [][2]string { // (form name, header value)
		return [][2]string{
			{"raw", can},
			{"bearer", "Bearer " + can},
			{"basic", "Basic " + base64.StdEncoding.EncodeToString([]byte("user:"+can))},
			{"cookie", "session=" + can + "; other=1"},
		}
	}
	for _, name := range names {
		for _, sp := range spellings(name) {
			for fi := 0; fi < 4; fi++ {
				for _, method := range []string{"GET", "POST"} {
					for _, dup := range []bool{false, true} {
						n++
						can := fmt.Sprintf("CANARYhdr%dz", n)
						f := forms(can)[fi]
						c := bcase{desc: fmt.Sprintf("%s (%s) %s %s dup=%v", name, sp, f[0], method, dup), method: method,
							visible: fmt.Sprintf("VISIBLE%dz", n)}
						c.headers = append(c.headers, [2]string{sp, f[1]}, [2]string{"X-Harmless", c.visible})
						c.canaries = []string{can, f[1]}
						if dup {
							can2 := fmt.Sprintf("CANARYhdr%dy", n)
							f2 := forms(can2)[fi]
							c.headers = append(c.headers, [2]string{sp, f2[1]})
							c.canaries = append(c.canaries, can2, f2[1])
						}
						cases = append(cases, c)
					}
				}
			}
		}
	}
	// pairs of different credential headers in one request
	for _, a := range names {
		for _, b := range names {
			if a == b {
				continue
			}
			n++
			ca, cb := fmt.Sprintf("CANARYhdr%da", n), fmt.Sprintf("CANARYhdr%db", n)
			cases = append(cases, bcase{desc: "pair " + a + " + " + b, method: "GET", visible: fmt.Sprintf("VISIBLE%dz", n),
				headers: [][2]string{{a, "Bearer " + ca}, {b, cb}, {"X-Harmless", fmt.Sprintf("VISIBLE%dz", n)}}, canaries: []string{ca, cb}})
		}
	}
	return cases
}

func partB(r *vcommon.Run, client *httplib.Client, set *canarySet, plan *bPlan) {
	names, inCode := plan.names, plan.inCode

	lg := &httplib.Logger{Capture: true}
	s := &httpp.Server{
		Address: "127.0.0.1:0", ReadTimeout: 30 * time.Second, WriteTimeout: 30 * time.Second, Parent: lg,
		Handler: http.HandlerFunc(func(w http.ResponseWriter, _ *http.Request) { w.WriteHeader(http.StatusOK) }),
	}
	must(s.Initialize())
	base := "http://" + s.VerifC07Addr().String() + "/some/path?x=1"

	cases := enumCases(names)

	nErr := 0
	var mu sync.Mutex
	// length dimension first (the largest requests), then the spelling/form/method/multiplicity cases
	httplib.RunN(len(plan.lenCases), 64, func(oi int) {
		c := plan.lenCases[len(plan.lenCases)-1-oi]
		f := hdrForms[c.form]
		var hs [][2]string
		for _, v := range c.vals {
			hs = append(hs, [2]string{c.name, f.pre + set.Text(v) + f.suf})
		}
		hs = append(hs, [2]string{"X-Harmless", c.marker})
		resp := client.Do(httplib.Req{Method: "GET", URL: base, Header: hs})
		r.Eval(1)
		if resp.Err != nil || resp.Status != 200 {
			mu.Lock()
			nErr++
			mu.Unlock()
		}
	})
	httplib.RunN(len(cases), 64, func(i int) {
		c := cases[i]
		body := ""
		if c.method == "POST" {
			body = "harmless body"
		}
		resp := client.Do(httplib.Req{Method: c.method, URL: base, Header: c.headers, Body: body})
		r.Eval(1)
		if resp.Err != nil || resp.Status != 200 {
			mu.Lock()
			nErr++
			mu.Unlock()
		}
	})
	s.Close()
	if nErr > 0 {
		vcommon.Harness("part B: %d requests failed", nErr)
	}
	lines := lg.Lines()
	all := strings.Join(lines, "\n")
	nVisible := 0
	for _, c := range cases {
		if strings.Contains(all, c.visible) {
			nVisible++
		}
		for _, can := range c.canaries {
			if strings.Contains(all, can) {
				line := ""
				for _, l := range lines {
					if strings.Contains(l, can) {
						line = l
						break
					}
				}
				hn := c.headers[0][0]
				for _, h := range c.headers { // the header that carried this canary
					if strings.Contains(h[1], can) || h[1] == can {
						hn = h[0]
					}
				}
				r.Violation("request-dump-discloses|"+http.CanonicalHeaderKey(hn),
					fmt.Sprintf("debug dump of the request contains the value of header %q (%s)", hn, c.desc),
					map[string]any{"case": c.desc, "headers": c.headers, "method": c.method, "log_line": vcommon.Short(line, 600)})
				break
			}
		}
		r.Distinct("dump|" + c.desc)
	}
	if nVisible != len(cases) {
		vcommon.Harness("part B: only %d of %d requests were dumped by the logger (harmless marker missing): dump not observed", nVisible, len(cases))
	}

	// length dimension: no part (>= 15 bytes, or the whole of a shorter one) of any secret anywhere in the log ...
	lviol := map[int][]pendingViol{}
	for _, h := range set.Scan([]byte(all)) {
		cv := set.vals[h.v]
		if !strings.HasPrefix(cv.where, "header ") {
			vcommon.Harness("part B: the request log contains a configuration secret (%s)", cv.where)
		}
		c := plan.lenCases[cv.owner]
		lviol[cv.owner] = append(lviol[cv.owner], pendingViol{"request-dump-discloses|" + http.CanonicalHeaderKey(c.name),
			fmt.Sprintf("debug log contains bytes [%d,%d) of the %d-byte secret sent in %s (%s)", h.off, h.off+h.n, cv.n, cv.where, c.desc),
			map[string]any{"case": c.desc, "header": c.name, "form": hdrForms[c.form].name, "secret_length": cv.n, "disclosed_offset": h.off,
				"disclosed_bytes": h.n, "log_context": vcommon.Short(all[max(0, h.pos-300):min(len(all), h.pos+100)], 400)}})
	}
	// ... and a secret too short to be searched for (digits) is not in the header's own line of the request's dump
	dumps := map[string]string{}
	for _, l := range lines {
		if i := strings.Index(l, "X-Harmless: VISIBLElen"); i >= 0 {
			m := l[i+len("X-Harmless: "):]
			if j := strings.IndexByte(m, 'z'); j >= 0 {
				dumps[m[:j+1]] = l
			}
		}
	}
	nShort := 0
	for ci, c := range plan.lenCases {
		d, ok := dumps[c.marker]
		if !ok {
			vcommon.Harness("part B: request %q was not dumped by the logger (harmless marker missing): dump not observed", c.desc)
		}
		for _, v := range c.vals {
			if set.vals[v].n >= chunkW {
				continue
			}
			nShort++
			sec := set.Text(v)
			for _, hl := range strings.Split(d, "\r\n") {
				k, val, ok := strings.Cut(hl, ": ")
				if ok && http.CanonicalHeaderKey(k) == http.CanonicalHeaderKey(c.name) && strings.Contains(val, sec) {
					lviol[ci] = append(lviol[ci], pendingViol{"request-dump-discloses|" + http.CanonicalHeaderKey(c.name),
						fmt.Sprintf("debug dump of the request shows the %d-byte secret sent in %s (%s)", len(sec), set.vals[v].where, c.desc),
						map[string]any{"case": c.desc, "header": c.name, "form": hdrForms[c.form].name, "secret": sec, "dump_line": hl}})
				}
			}
		}
		r.Distinct("dump|" + c.desc)
	}
	for ci := range plan.lenCases {
		for _, v := range lviol[ci] {
			r.Violation(v.key, v.what, v.rep)
		}
	}
	r.Set("header_value_lengths", plan.lens)
	r.Set("request_dump_length_cases", len(plan.lenCases))
	r.Set("request_dump_short_secrets_checked_in_own_line", nShort)
	r.Set("header_names", names)
	r.Set("header_names_in_code", inCode)
	r.Set("request_dump_cases", len(cases))
	r.Set("log_lines_scanned", len(lines))
	if d, ok := dumps[plan.lenCases[0].marker]; ok { // a fixed case, without the ephemeral addresses
		if i := strings.Index(d, "[c->s] "); i >= 0 {
			d = d[i:]
		}
		if i := strings.Index(d, "Host: "); i >= 0 {
			if j := strings.Index(d[i:], "\r\n"); j >= 0 {
				d = d[:i] + "Host: (listener)" + d[i+j:]
			}
		}
		r.Sample(map[string]any{"log_line": vcommon.Short(d, 400)})
	}
}

func main() {
	r := vcommon.Start("C07", "exploration")
	gin.SetMode(gin.ReleaseMode)
	httplib.RaiseFDLimit()
	tmp, err := os.MkdirTemp("", "verif-c07-")
	must(err)
	defer os.RemoveAll(tmp)
	client := httplib.NewClient(256)
	defer client.Close()

	r.Rule = "A: all internal-user lists of length 0..3 over password encodings {empty, plain, sha256, argon2} (85) plus all assignments of " +
		"{unset, plain, sha256[, argon2 in thorough]} to the 6 deprecated password positions (defaults/static path/regexp path x publish/read: 729 [4096]) " +
		"x every parameter-less GET route of the API, 12 pages of config/paths/list and config/paths/get of every path; " +
		"plus, for every password length n next to a power of two <= 2^16 [2^17] or a power of ten <= 10^4 [10^5] (t-1, t, t+1: 58 [64] lengths), " +
		"one configuration with two internal users and two with all 6 deprecated positions holding n-byte passwords (plain and sha256-form), " +
		"each password made of distinct 8-byte chunks so that any 15 leaked bytes of it are recognised anywhere in a response; " +
		"B: every credential header name x 4 spellings x 4 value forms x GET/POST x single/duplicated, plus all ordered pairs of names, " +
		"plus every name x value form {raw, Bearer, Basic, cookie} x total value length of the same length set up to 2^16 / 10^4 [2^19 / 10^6] " +
		"(and, raw form, a 16-byte value before/after the n-byte value of the same header), the whole log scanned for any 15-byte part of any value; " +
		"distinct = set of secret positions of a configuration / request-dump case"
	set := &canarySet{}
	set.selfTest()
	plan := planB(r, set) // all secrets are issued before the first scan
	t0 := time.Now()
	partA(r, tmp, client, set)
	t1 := time.Now()
	partB(r, client, set, plan)
	t2 := time.Now()
	partC(r, tmp, set, plan)
	fmt.Fprintf(os.Stderr, "[c07] part A %.1fs, part B %.1fs, part C %.1fs\n", t1.Sub(t0).Seconds(), t2.Sub(t1).Seconds(), time.Since(t2).Seconds())
	r.Set("length_parametrised_secrets", len(set.vals))
	r.Exhaustive = true
	r.Assumptions = []string{
		"secrets = authInternalUsers[].pass and publishPass/readPass (statement); user names, TLS keys, hlsCDNSecret, source URLs with embedded credentials are outside the statement",
		"\"similar credential header\" is fixed to Proxy-Authorization, Set-Cookie, X-Api-Key, X-Auth-Token (plus whatever the code's map lists); request line (query tokens) and request body are outside the statement",
		"requests reach the logger through a real net/http server (HTTP/1.1), i.e. header names arrive canonicalised; dumpRequest is not called with hand-built non-canonical header maps",
		"live configuration unchanged = encoding/json image identical and reflect.DeepEqual to an independently loaded twin of the same file",
		"length dimension: a leaked part of a secret is recognised when it is >= 15 contiguous bytes (or the whole secret when that is shorter, >= 8 bytes); secrets of 1..7 bytes are " +
			"decimal digits and are only looked for where they would be shown (password position of the JSON must hold the placeholder; the header's own line of the request's dump); " +
			"a dump that shows only a few bytes of a credential (e.g. first/last 4) is not reported",
		"part C: the body read faults of the function-level drivers are io.Reader errors injected by the harness (the error values net/http and net return); on real connections the " +
			"client half-closes / closes (FIN) a unix-socket connection: connection resets (RST) and read timeouts are only covered at the function level; request bodies and " +
			"response bodies are harmless filler (a body is outside the statement), the secrets are those of the request headers",
		"header values are sent up to 65537 [1000001] bytes (net/http's default 1 MiB header limit applies above); transformed disclosures (hash, encoding, case change of the value) are not searched for",
	}
	os.RemoveAll(tmp)
	r.Finish()
}
