// Length-parametrised canary secrets and the scanner that finds any part of them.
//
// A secret of length n >= chunkW is the concatenation of distinct 8-symbol chunks; chunk ci of
// secret number v is the base32 spelling of mix(v<<20|ci), mix being a bijection of the 40-bit
// integers. Hence every 8-symbol window of a scanned text decodes (unmix) to exactly one
// (v, ci) and no index of the issued secrets is needed: a window is a candidate when that
// secret was issued and has such a chunk, and it is a hit when the text agrees with the secret
// on at least confirmW bytes around it (the whole secret when it is shorter). Consequently
// every leaked substring of >= 2*chunkW-1 = 15 bytes of any issued secret is found, wherever
// it starts in the secret and wherever it lands in the text. Secrets shorter than chunkW are
// decimal digit strings; they cannot be searched for in free text and are only checked at the
// position where they would be shown (the password position of the JSON / the header's own
// line of the dump).
package main

import (
	"fmt"
	"sort"
	"strings"

	"github.com/bluenviron/mediamtx/internal/zzverif/vcommon"
)

const (
	chunkW   = 8
	confirmW = 12
	symbols  = "ABCDEFGHIJKLMNOPQRSTUVWXYZ234567" // valid in header values, plain credentials and base64
	ciBits   = 20
	mask40   = uint64(1)<<40 - 1
	mulA     = uint64(0x9E3779B97F)
	mulB     = uint64(0xC2B2AE3D27)
)

var (
	invA, invB uint64
	symDec     [256]int8
)

func modInverse(m uint64) uint64 { // inverse modulo 2^64 (m odd), Newton iteration
	inv := m
	for i := 0; i < 6; i++ {
		inv *= 2 - m*inv
	}
	return inv
}

func init() {
	invA, invB = modInverse(mulA), modInverse(mulB)
	for i := range symDec {
		symDec[i] = -1
	}
	for i := 0; i < len(symbols); i++ {
		symDec[symbols[i]] = int8(i)
	}
}

func mix(id uint64) uint64 {
	x := id & mask40
	x = (x * mulA) & mask40
	x ^= x >> 19
	x = (x * mulB) & mask40
	x ^= x >> 23
	return x
}

func unmix(x uint64) uint64 {
	x ^= x >> 23
	x = (x * invB) & mask40
	x = x ^ (x >> 19) ^ (x >> 38)
	x = (x * invA) & mask40
	return x
}

type canaryVal struct {
	n     int    // length of the secret
	where string // what it is the value of
	owner int    // case / configuration index
}

// canarySet hands out numbered secrets. It is filled while the cases are generated and is
// read-only afterwards (Scan may then be called concurrently).
type canarySet struct {
	vals []canaryVal
}

func (s *canarySet) New(n int, where string, owner int) int {
	if n < 1 || n > chunkW<<ciBits || len(s.vals) >= 1<<20 {
		vcommon.Harness("canary secret out of range: n=%d, %d issued", n, len(s.vals))
	}
	s.vals = append(s.vals, canaryVal{n, where, owner})
	return len(s.vals) - 1
}

// Text returns secret number v.
func (s *canarySet) Text(v int) string {
	n := s.vals[v].n
	if n < chunkW {
		d := fmt.Sprintf("%07d", (uint64(v)*2654435761+12345)%10000000)
		return d[:n]
	}
	b := make([]byte, 0, n+chunkW)
	for ci := 0; len(b) < n; ci++ {
		x := mix(uint64(v)<<ciBits | uint64(ci))
		for j := chunkW - 1; j >= 0; j-- {
			b = append(b, symbols[(x>>(5*uint(j)))&31])
		}
	}
	return string(b[:n])
}

type canaryHit struct {
	v, off, n int // bytes [off, off+n) of secret v ...
	pos       int // ... are at text[pos:]
}

// Scan returns, for every issued secret of which a part is in text, the longest part found.
func (s *canarySet) Scan(text []byte) []canaryHit {
	best := map[int]canaryHit{}
	cache := map[int]string{}
	var x uint64
	run := 0
	lastV, lastEnd := -1, -1
	for p := 0; p < len(text); p++ {
		sy := symDec[text[p]]
		if sy < 0 {
			run = 0
			continue
		}
		x = (x<<5 | uint64(sy)) & mask40
		run++
		if run < chunkW {
			continue
		}
		id := unmix(x)
		v, ci := int(id>>ciBits), int(id&(1<<ciBits-1))
		if v >= len(s.vals) {
			continue
		}
		n := s.vals[v].n
		if n < chunkW || (ci+1)*chunkW > n {
			continue
		}
		if v == lastV && p < lastEnd {
			continue
		}
		sec, ok := cache[v]
		if !ok {
			sec = s.Text(v)
			cache[v] = sec
		}
		start, so := p-chunkW+1, ci*chunkW
		l := 0
		for start-1-l >= 0 && so-1-l >= 0 && text[start-1-l] == sec[so-1-l] {
			l++
		}
		r := 0
		for p+1+r < len(text) && so+chunkW+r < n && text[p+1+r] == sec[so+chunkW+r] {
			r++
		}
		m := l + chunkW + r
		need := confirmW
		if n < need {
			need = n
		}
		if m < need {
			continue
		}
		lastV, lastEnd = v, p+1+r
		if b, ok := best[v]; !ok || m > b.n {
			best[v] = canaryHit{v: v, off: so - l, n: m, pos: start - l}
		}
	}
	out := make([]canaryHit, 0, len(best))
	for _, h := range best {
		out = append(out, h)
	}
	sort.Slice(out, func(i, j int) bool { return out[i].v < out[j].v })
	return out
}

// selfTest checks the scanner on planted parts of secrets (start, middle, end, every alignment).
func (s *canarySet) selfTest() {
	for id := uint64(0); id < 1<<16; id++ {
		y := id * 0x10001 & mask40
		if unmix(mix(y)) != y {
			vcommon.Harness("canary mix is not inverted by unmix at %d", y)
		}
	}
	t := &canarySet{}
	a := t.New(8, "a", 0)
	b := t.New(15, "b", 0)
	c := t.New(4097, "c", 0)
	d := t.New(3, "d", 0)
	ta, tb, tc := t.Text(a), t.Text(b), t.Text(c)
	if len(ta) != 8 || len(tb) != 15 || len(tc) != 4097 || len(t.Text(d)) != 3 {
		vcommon.Harness("canary text has a wrong length")
	}
	for off := 0; off+15 <= len(tc); off += 61 {
		for _, n := range []int{15, 16, 23, 100} {
			if off+n > len(tc) {
				continue
			}
			text := "Cookie: x=" + tc[off:off+n] + "\r\nX-Harmless: VISIBLE; " + ta[:7] + " " + tb[:11] + "\r\n"
			hits := t.Scan([]byte(text))
			if len(hits) != 1 || hits[0].v != c || hits[0].off != off || hits[0].n != n || hits[0].pos != 10 {
				vcommon.Harness("canary scanner self-test failed at off=%d n=%d: %+v", off, n, hits)
			}
		}
	}
	hits := t.Scan([]byte("k" + ta + "=" + tb + "!" + tc[4000:] + strings.Repeat("A", 40)))
	if len(hits) != 3 || hits[0].n != 8 || hits[1].n != 15 || hits[2].off != 4000 || hits[2].n != 97 {
		vcommon.Harness("canary scanner self-test failed on whole secrets: %+v", hits)
	}
	if h := t.Scan([]byte("GET /some/path?x=1 HTTP/1.1\r\nAuthorization: <redacted>\r\nACCEPTENCODING234567ABCDEFGH\r\n")); len(h) != 0 {
		vcommon.Harness("canary scanner self-test: hit in harmless text: %+v", h)
	}
}

// lengthSet returns the lengths next to every power of two up to 2^maxPow2 and every power of
// ten up to 10^maxPow10 (t-1, t, t+1), ascending.
func lengthSet(maxPow2, maxPow10 int) []int {
	set := map[int]bool{}
	add := func(t int) {
		for d := -1; d <= 1; d++ {
			if t+d >= 1 {
				set[t+d] = true
			}
		}
	}
	for k, t := 0, 1; k <= maxPow2; k, t = k+1, t*2 {
		add(t)
	}
	for k, t := 1, 10; k <= maxPow10; k, t = k+1, t*10 {
		add(t)
	}
	out := make([]int, 0, len(set))
	for n := range set {
		out = append(out, n)
	}
	sort.Ints(out)
	return out
}
