// C37: structured log lines are valid JSON.
//
// Engine B: bounded-exhaustive enumeration of log records (message bytes x formatting mode x
// level x clock reading) through the real logger.Logger (Structured: true) writing to BOTH the
// stdout destination (through the package's stdout seam) and the file destination (a real
// file, read back after every record). The oracle is the statement, literally:
//
//	every record is exactly one '\n'-terminated line; the line is a JSON text (RFC 8259: UTF-8,
//	strict grammar) holding an object; its "timestamp" decodes to the record's instant, its
//	"level" to the record's level, its "message" to fmt.Sprintf(format, args...) with invalid
//	UTF-8 replaced by U+FFFD (one per invalid byte, one per maximal invalid run, or anything in
//	between: all accepted).
package main

import (
	"bytes"
	"encoding/hex"
	"encoding/json"
	"errors"
	"fmt"
	"os"
	"path/filepath"
	"regexp"
	"runtime"
	"sort"
	"strings"
	"sync"
	"time"
	_ "time/tzdata" // zone database independent of the host
	"unicode/utf8"

	"github.com/bluenviron/mediamtx/internal/logger"
	"github.com/bluenviron/mediamtx/internal/zzverif/vcommon"
)

// ---------------------------------------------------------------------------------------------
// alphabet

// bytes that select every shortcut visible in strconv.Quote / a JSON encoder:
// C0 controls with and without a short escape, quote, backslash, slash, DEL, '%', HTML-sensitive
// characters, UTF-8 lead bytes of every length, continuation bytes, overlong/out-of-range leads.
var alpha24 = []byte{
	0x00, 0x07, 0x08, 0x09, 0x0a, 0x0b, 0x0c, 0x0d, 0x1b, 0x1f,
	'"', '\\', '/', '%', 'a', '<', 0x7f,
	0x80, 0xa8, 0xbf, 0xc2, 0xe2, 0xed, 0xf4,
}

var alpha64extra = []byte{
	0x01, 0x0e, 0x1a, 0x20, '\'', '&', '>', '{', '}', ':', ',', 's', 'u', 'x', 'U', 'n', '0',
	0x81, 0x85, 0x90, 0x9f, 0xa0, 0xa9, 0xad, 0xc0, 0xc1, 0xc3, 0xdf, 0xe0, 0xef, 0xf0, 0xf3, 0xf5, 0xf8, 0xfe, 0xff,
	0xbb, 0xbd, 0xbe, 0x8f,
}

// multi-byte sequences of interest (not reachable with <= 3 bytes over the alphabets, or worth
// having in every context).
var specials = []string{
	"\xe2\x80\xa8",     // U+2028 LINE SEPARATOR
	"\xe2\x80\xa9",     // U+2029 PARAGRAPH SEPARATOR
	"\xc2\x85",         // U+0085 NEL (C1 control)
	"\xc2\x80",         // U+0080
	"\xc2\xad",         // U+00AD soft hyphen (not printable)
	"\xef\xbb\xbf",     // U+FEFF BOM
	"\xef\xbf\xbd",     // U+FFFD itself, validly encoded
	"\xef\xbf\xbe",     // U+FFFE non-character
	"\xed\xa0\x80",     // UTF-8 encoded surrogate D800 (invalid)
	"\xed\x9f\xbf",     // U+D7FF (valid, last before surrogates)
	"\xf4\x90\x80\x80", // > U+10FFFF (invalid)
	"\xf4\x8f\xbf\xbf", // U+10FFFF (valid non-character)
	"\xf3\xa0\x80\x81", // U+E0001 LANGUAGE TAG: valid, not printable, > 0xFFFF
	"\xf0\x9f\x98\x80", // U+1F600 (printable, > 0xFFFF)
	"\xf0\x90\x80",     // truncated 4-byte sequence
	"\xe2\x80",         // truncated 3-byte sequence
	"\xc0\xaf",         // overlong '/'
	"\xe0\x80\xaf",     // overlong
	"\u00e9",           // e acute
	"\u200b",           // zero width space (Cf)
	"\u202e",           // RTL override (Cf)
	"\U0001d173",       // musical symbol begin beam (Cf, > 0xFFFF)
	"\\u0041",          // text that looks like an escape
	"\\x41",
	"%!s(MISSING)",
	"%s", "%d", "%%", "%", "%!",
	`{"a":1}`,
	"\r\n",
}

var contexts = []func(s string) string{
	func(s string) string { return s },
	func(s string) string { return "a" + s },
	func(s string) string { return s + "a" },
	func(s string) string { return "\"" + s + "\"" },
	func(s string) string { return s + "\n" },
	func(s string) string { return "\\" + s },
	func(s string) string { return s + "\\" },
	func(s string) string { return "\xff" + s },
	func(s string) string { return s + "\xe2" },
	func(s string) string { return "path " + s + " is ready" },
}

type mode struct {
	name  string
	build func(msg string) (format string, args []any)
	full  bool // applied to the whole message set (otherwise to the small set)
}

var modes = []mode{
	{"format-only", func(m string) (string, []any) { return m, nil }, true},
	{"%s", func(m string) (string, []any) { return "%s", []any{m} }, true},
	{"prefix-%v-%s", func(m string) (string, []any) {
		return "[conn %v] " + "%s", []any{"127.0.0.1:1234", m}
	}, false},
	{"%q", func(m string) (string, []any) { return "path %q", []any{m} }, false},
	{"%v-error", func(m string) (string, []any) { return "closed: %v", []any{errors.New(m)} }, false},
	{"%d-wrongverb", func(m string) (string, []any) { return "%d", []any{m} }, false},
	{"%x-bytes-%v", func(m string) (string, []any) { return "%x %v", []any{m, []byte(m)} }, false},
	{"format-with-arg", func(m string) (string, []any) { return m, []any{"x\x00\xff"} }, false},
}

var levels = []logger.Level{logger.Debug, logger.Info, logger.Warn, logger.Error}

// the documented level codes of mediamtx log lines
var levelCodes = map[logger.Level]string{logger.Debug: "DEB", logger.Info: "INF", logger.Warn: "WAR", logger.Error: "ERR"}

var clockReadings = []time.Time{
	time.Date(2003, 11, 4, 23, 15, 8, 431232, time.UTC),
	time.Date(2024, 2, 29, 0, 0, 0, 0, time.UTC),
	time.Date(1999, 12, 31, 23, 59, 59, 999999999, time.FixedZone("", 5*3600+30*60)),
	time.Date(2038, 1, 19, 3, 14, 8, 500000000, time.FixedZone("", -8*3600)),
	time.Date(2026, 6, 30, 12, 0, 0, 120000000, time.FixedZone("", 3600)),
	// second round: the extreme offsets, a quarter/half-hour offset west of Greenwich, a named zone with
	// daylight saving time (a reading of each side), a day that differs from the UTC day in both directions
	time.Date(2027, 1, 1, 0, 0, 0, 1, time.FixedZone("", 14*3600)),
	time.Date(2026, 12, 31, 23, 59, 59, 999999000, time.FixedZone("", -12*3600)),
	time.Date(2026, 3, 1, 7, 8, 9, 10, time.FixedZone("", -(3*3600+30*60))),
	time.Date(2026, 7, 15, 14, 30, 0, 250000000, mustZone("Europe/Rome")),
	time.Date(2026, 1, 15, 14, 30, 0, 250000000, mustZone("Europe/Rome")),
	time.Date(2026, 9, 22, 1, 2, 3, 45, mustZone("Asia/Kolkata")),
}

func mustZone(n string) *time.Location {
	l, err := time.LoadLocation(n)
	if err != nil {
		panic(err)
	}
	return l
}

// ---------------------------------------------------------------------------------------------
// oracle

const fffd = "\uFFFD"

// wantVariants returns the two canonical replacements of invalid UTF-8 in s.
func perByte(s string) string {
	if utf8.ValidString(s) {
		return s
	}
	var b strings.Builder
	for i := 0; i < len(s); {
		r, w := utf8.DecodeRuneInString(s[i:])
		if r == utf8.RuneError && w == 1 {
			b.WriteString(fffd)
		} else {
			b.WriteString(s[i : i+w])
		}
		i += w
	}
	return b.String()
}

// messageMatches: got equals want with every maximal run of n invalid bytes replaced by between
// 1 and n U+FFFD.
func messageMatches(got, want string) bool {
	if got == want && utf8.ValidString(want) {
		return true
	}
	if utf8.ValidString(want) {
		return false
	}
	if got == perByte(want) || got == strings.ToValidUTF8(want, fffd) {
		return true
	}
	// general form
	var re strings.Builder
	re.WriteString(`^(?s:`)
	run := 0
	flush := func() {
		if run > 0 {
			fmt.Fprintf(&re, `\x{FFFD}{1,%d}`, run)
			run = 0
		}
	}
	for i := 0; i < len(want); {
		r, w := utf8.DecodeRuneInString(want[i:])
		if r == utf8.RuneError && w == 1 {
			run++
		} else {
			flush()
			re.WriteString(regexp.QuoteMeta(want[i : i+w]))
		}
		i += w
	}
	flush()
	re.WriteString(`)$`)
	rx, err := regexp.Compile(re.String())
	if err != nil {
		vcommon.Harness("oracle regexp: %v", err)
	}
	return rx.MatchString(got)
}

// strictJSONString verifies that lit is exactly one JSON string literal per RFC 8259 section 7
// and returns the first offending escape character (0 if the problem is something else).
func badEscape(line []byte) byte {
	in := false
	for i := 0; i < len(line); i++ {
		c := line[i]
		if !in {
			if c == '"' {
				in = true
			}
			continue
		}
		switch c {
		case '"':
			in = false
		case '\\':
			if i+1 >= len(line) {
				return '\\'
			}
			e := line[i+1]
			switch e {
			case '"', '\\', '/', 'b', 'f', 'n', 'r', 't':
				i++
			case 'u':
				if i+5 >= len(line) {
					return 'u'
				}
				for _, h := range line[i+2 : i+6] {
					if !(h >= '0' && h <= '9' || h >= 'a' && h <= 'f' || h >= 'A' && h <= 'F') {
						return 'u'
					}
				}
				i += 5
			default:
				return e
			}
		}
	}
	return 0
}

type verdict struct {
	key  string
	what string
}

// checkLine is the oracle for one record as it appeared on one destination.
func checkLine(out []byte, t time.Time, level logger.Level, wantMsg string) *verdict {
	return checkLineBetween(out, t, t, level, wantMsg)
}

// checkLineBetween is checkLine for a record whose instant is known to lie in [lo, hi] (lo == hi when the
// clock is injected; the readings taken right before and after the Log call when the real clock is used).
func checkLineBetween(out []byte, lo, hi time.Time, level logger.Level, wantMsg string) *verdict {
	if len(out) == 0 {
		return &verdict{"no-output", "the record produced no output"}
	}
	if out[len(out)-1] != '\n' || bytes.Count(out, []byte{'\n'}) != 1 {
		return &verdict{"not-one-line", fmt.Sprintf("output is not exactly one newline-terminated line: %q", out)}
	}
	line := out[:len(out)-1]
	if !utf8.Valid(line) {
		return &verdict{"output-not-utf8", fmt.Sprintf("line is not UTF-8 (RFC 8259 8.1): %q", line)}
	}
	var obj map[string]any
	dec := json.NewDecoder(bytes.NewReader(line))
	err := dec.Decode(&obj)
	if err == nil {
		// nothing but whitespace may follow the object
		var extra any
		if err2 := dec.Decode(&extra); err2 == nil || dec.More() {
			err = errors.New("trailing data after the JSON object")
		}
	}
	if err != nil || !json.Valid(line) {
		for _, c := range line {
			if c < 0x20 {
				return &verdict{"json-raw-control", fmt.Sprintf("line is not JSON: raw control character 0x%02x (%v): %q", c, err, line)}
			}
		}
		if e := badEscape(line); e != 0 {
			name := string(rune(e))
			if !strings.ContainsRune("xavUu", rune(e)) { // the escapes of Go syntax get their own class
				name = "other"
			}
			return &verdict{"json-escape-" + name, fmt.Sprintf("line is not JSON: string escape \\%c is not a JSON escape (%v): %q", e, err, line)}
		}
		return &verdict{"json-invalid", fmt.Sprintf("line is not JSON (%v): %q", err, line)}
	}
	if obj == nil {
		return &verdict{"json-not-object", fmt.Sprintf("line is not a JSON object: %s", line)}
	}
	ts, ok1 := obj["timestamp"].(string)
	lv, ok2 := obj["level"].(string)
	msg, ok3 := obj["message"].(string)
	if !ok1 || !ok2 || !ok3 {
		return &verdict{"fields-missing", fmt.Sprintf("timestamp/level/message are not all strings: %s", line)}
	}
	pt, err := time.Parse(time.RFC3339Nano, ts)
	if err != nil || pt.Before(lo) || pt.After(hi) {
		if lo.Equal(hi) {
			return &verdict{"timestamp-mismatch", fmt.Sprintf("timestamp %q does not decode to the record's time %s", ts, lo.Format(time.RFC3339Nano))}
		}
		return &verdict{"timestamp-mismatch", fmt.Sprintf("timestamp %q does not decode to an instant between the clock readings taken before and after the record (%s, %s)",
			ts, lo.Format(time.RFC3339Nano), hi.Format(time.RFC3339Nano))}
	}
	if lv != levelCodes[level] {
		return &verdict{"level-mismatch", fmt.Sprintf("level %q, record's level is %q", lv, levelCodes[level])}
	}
	if !messageMatches(msg, wantMsg) {
		return &verdict{"message-mismatch", fmt.Sprintf("message decodes to %q, the record's formatted message is %q", msg, wantMsg)}
	}
	return nil
}

// signature of a produced line: which encodings the record exercised (for the distinct count).
func signature(line []byte, wantMsg string) string {
	set := map[string]bool{}
	for i := 0; i < len(line); i++ {
		if line[i] == '\\' && i+1 < len(line) {
			set["\\"+string(rune(line[i+1]))] = true
			i++
		} else if line[i] >= 0x80 {
			set["raw8"] = true
		}
	}
	if !utf8.ValidString(wantMsg) {
		set["invalid-utf8-in"] = true
	}
	for _, r := range wantMsg {
		switch {
		case r < 0x20:
			set["c0"] = true
		case r == 0x7f:
			set["del"] = true
		case r >= 0x80 && r < 0xa0:
			set["c1"] = true
		case r == 0x2028 || r == 0x2029:
			set["ls"] = true
		case r > 0xffff:
			set["astral"] = true
		}
	}
	keys := make([]string, 0, len(set))
	for k := range set {
		keys = append(keys, k)
	}
	sort.Strings(keys)
	return strings.Join(keys, ",")
}

// ---------------------------------------------------------------------------------------------

type rec struct {
	msg  string
	mode int
}

// worker owns one real Logger with both destinations.
type worker struct {
	l      *logger.Logger
	stdout bytes.Buffer
	now    time.Time
	rf     *os.File
	rbuf   []byte
}

func newWorker(dir string, i int) *worker {
	w := &worker{rbuf: make([]byte, 1<<20)}
	p := filepath.Join(dir, fmt.Sprintf("log-%d.jsonl", i))
	l, err := logger.VerifC37New(
		[]logger.Destination{logger.DestinationStdout, logger.DestinationFile},
		true, p, logger.Debug,
		func() time.Time { return w.now }, &w.stdout)
	if err != nil {
		vcommon.Harness("logger init: %v", err)
	}
	w.l = l
	w.rf, err = os.Open(p)
	if err != nil {
		vcommon.Harness("open log file: %v", err)
	}
	return w
}

func (w *worker) logOne(level logger.Level, t time.Time, format string, args []any) (so, fo []byte) {
	w.stdout.Reset()
	w.now = t
	w.l.Log(level, format, args...)
	so = append([]byte(nil), w.stdout.Bytes()...)
	n, _ := w.rf.Read(w.rbuf)
	fo = append([]byte(nil), w.rbuf[:n]...)
	return
}

func main() {
	r := vcommon.Start("C37", "exploration")

	// ---- message sets
	var small, all []string
	seen := map[string]bool{}
	add := func(dst *[]string, s string) {
		if !seen[s] {
			seen[s] = true
			*dst = append(*dst, s)
		}
	}
	// small set: length <= 1 over all bytes, all 3-byte strings over alpha24 (quick: length-2 too),
	// the special sequences in every context and every ordered pair of them.
	add(&small, "")
	for b := 0; b < 256; b++ {
		add(&small, string([]byte{byte(b)}))
	}
	for _, s := range specials {
		for _, c := range contexts {
			add(&small, c(s))
		}
	}
	for _, s1 := range specials {
		for _, s2 := range specials {
			add(&small, s1+s2)
		}
	}
	a3 := alpha24
	if r.Thorough() {
		a3 = append(append([]byte(nil), alpha24...), alpha64extra...)
	}
	for _, b1 := range alpha24 {
		for _, b2 := range alpha24 {
			for _, b3 := range alpha24 {
				add(&small, string([]byte{b1, b2, b3}))
			}
		}
	}
	nsmall := len(small)
	// the full set adds every 2-byte message over all 256 byte values
	for b1 := 0; b1 < 256; b1++ {
		for b2 := 0; b2 < 256; b2++ {
			add(&all, string([]byte{byte(b1), byte(b2)}))
		}
	}
	if r.Thorough() {
		for _, b1 := range a3 {
			for _, b2 := range a3 {
				for _, b3 := range a3 {
					add(&all, string([]byte{b1, b2, b3}))
				}
			}
		}
		for _, b1 := range alpha24 {
			for _, b2 := range alpha24 {
				for _, b3 := range alpha24 {
					for _, b4 := range alpha24 {
						add(&all, string([]byte{b1, b2, b3, b4}))
					}
				}
			}
		}
	}
	msgs := append(append([]string(nil), small...), all...)

	var recs []rec
	for mi, m := range modes {
		n := nsmall
		if m.full || r.Thorough() {
			n = len(msgs)
		}
		for i := 0; i < n; i++ {
			recs = append(recs, rec{msgs[i], mi})
		}
	}

	r.Rule = fmt.Sprintf("messages = every byte string of length<=2 over all 256 byte values + every 3-byte string over a %d-byte alphabet "+
		"(controls, quote, backslash, DEL, %%, UTF-8 lead/continuation bytes) + %d special sequences (U+2028/9, C1, BOM, surrogate, >U+10FFFF, "+
		"non-printable astral, truncated, overlong) in %d contexts and all ordered pairs [thorough: + 4-byte strings over the 24-byte alphabet, "+
		"3-byte over 64 bytes]; x %d formatting modes (format only, %%s, prefix, %%q, error %%v, wrong verb, %%x, surplus arg; the first two on "+
		"every message, the others on the small set [thorough: all on all]) x 4 levels, clock reading rotating over %d instants, plus the full product "+
		"(1-byte messages x 4 levels x %d instants). Every record goes through one real Logger{Structured} with stdout AND file destinations; both "+
		"outputs are judged. Second dimension, the environment: a reduced alphabet (empty, every 1-byte message, the special sequences, terminal control "+
		"sequences; format only and %%s) x 4 levels x the clock readings through one real Logger per environment: standard output {pipe, regular file, "+
		"pseudo-terminal via the stdout seam, pseudo-terminal written to and read on the master side, terminal answer through the shim}, log file {existing "+
		"with previous lines, existing with a cut last line, truncated while open, renamed while open, restarted}. Third: process time zone (time.Local in 8 zones) x "+
		"{injected readings carried in the local zone, the real clock bracketed by two readings} x 4 levels x 4 messages. "+
		"distinct = (destination/environment, mode, level, set of escape kinds/character classes in the record)",
		len(a3), len(specials), len(contexts), len(modes), len(clockReadings), len(clockReadings))

	dir, err := os.MkdirTemp("", "verif-c37-")
	if err != nil {
		vcommon.Harness("tempdir: %v", err)
	}
	defer os.RemoveAll(dir) // Finish exits the process: the directory is also removed explicitly before it

	nw := runtime.GOMAXPROCS(0)
	chunk := 2048
	nchunks := (len(recs) + chunk - 1) / chunk
	pool := make(chan *worker, nw)
	// environment of the main stage: the process' standard output is a pipe (built here, so that the answer
	// does not depend on how the harness was started), the log file is fresh
	mainPR, mainPW, err := os.Pipe()
	if err != nil {
		vcommon.Harness("pipe: %v", err)
	}
	withStdout(mainPW, func() {
		for i := 0; i < nw; i++ {
			w := newWorker(dir, i)
			if isTerm, ok := logger.VerifC37StdoutIsTerminal(w.l); !ok || isTerm {
				vcommon.Harness("main stage: stdout destination detected terminal=%v (found=%v) on a pipe", isTerm, ok)
			}
			pool <- w
		}
	})
	mainPR.Close()
	mainPW.Close()

	var mu sync.Mutex
	classCount := map[string]int{}
	// violations are collected per class with the lowest record index as representative, so that
	// the reported counterexample is the simplest one and the same on every run
	type vrep struct {
		idx    int
		what   string
		replay any
	}
	vreps := map[string]*vrep{}

	var record func(idx int, dest string, v *verdict, out []byte, t time.Time, lv logger.Level, format string, args []any, want string, modeName string)
	judge := func(idx int, dest string, out []byte, t time.Time, lv logger.Level, format string, args []any, want string, modeName string) {
		record(idx, dest, checkLine(out, t, lv, want), out, t, lv, format, args, want, modeName)
	}
	record = func(idx int, dest string, v *verdict, out []byte, t time.Time, lv logger.Level, format string, args []any, want string, modeName string) {
		r.Eval(1)
		if v != nil {
			key := dest + ":" + v.key
			mu.Lock()
			classCount[key]++
			if cur := vreps[key]; cur == nil || idx < cur.idx {
				vreps[key] = &vrep{idx, fmt.Sprintf("[%s destination, mode %s, level %s] %s", dest, modeName, levelCodes[lv], v.what),
					map[string]any{
						"destination": dest, "level": levelCodes[lv], "time": t.Format(time.RFC3339Nano),
						"format_hex": hex.EncodeToString([]byte(format)), "format_go": fmt.Sprintf("%q", format),
						"args_go": fmt.Sprintf("%#v", args), "output_go": fmt.Sprintf("%q", out),
						"expected_message_go": fmt.Sprintf("%q", want),
					}}
			}
			mu.Unlock()
		}
		r.Distinct(dest + "|" + modeName + "|" + levelCodes[lv] + "|" + signature(out, want))
	}

	vcommon.Parallel(nchunks, func(ci int) {
		w := <-pool
		defer func() { pool <- w }()
		lo, hi := ci*chunk, min((ci+1)*chunk, len(recs))
		for i := lo; i < hi; i++ {
			rc := recs[i]
			format, args := modes[rc.mode].build(rc.msg)
			want := fmt.Sprintf(format, args...)
			for li, lv := range levels {
				t := clockReadings[(i+li)%len(clockReadings)]
				so, fo := w.logOne(lv, t, format, args)
				judge(i*4+li, "stdout", so, t, lv, format, args, want, modes[rc.mode].name)
				judge(i*4+li, "file", fo, t, lv, format, args, want, modes[rc.mode].name)
				if i < 3 && li == 1 || (rc.msg == "a\"\n" && li == 0 && rc.mode == 1) {
					r.Sample(map[string]any{"format": fmt.Sprintf("%q", format), "args": fmt.Sprintf("%q", args), "stdout": fmt.Sprintf("%q", so)})
				}
			}
		}
	})

	// full product with the clock alphabet on 1-byte messages
	w := <-pool
	pidx := len(recs) * 4
	for b := 0; b < 256; b++ {
		m := string([]byte{byte(b)})
		for _, lv := range levels {
			for _, t := range clockReadings {
				pidx++
				so, fo := w.logOne(lv, t, "%s", []any{m})
				judge(pidx, "stdout", so, t, lv, "%s", []any{m}, m, "%s")
				judge(pidx, "file", fo, t, lv, "%s", []any{m}, m, "%s")
			}
		}
	}
	pool <- w

	// ---- second dimension: the environment of the destinations ---------------------------------------
	sinks, ptyErr := buildEnvironments(dir)
	emsgs := envMessages()
	type erec struct {
		msg  string
		mode int
	}
	var erecs []erec
	for mi := 0; mi < 2; mi++ { // format-only and %s
		for _, m := range emsgs {
			erecs = append(erecs, erec{m, mi})
		}
	}
	envBase := pidx + 1
	var envNames []string
	envRecords := 0
	for _, s := range sinks {
		envNames = append(envNames, s.name)
	}
	vcommon.Parallel(len(sinks), func(si int) {
		s := sinks[si]
		n := 0
		for i, rc := range erecs {
			format, args := modes[rc.mode].build(rc.msg)
			want := fmt.Sprintf(format, args...)
			for li, lv := range levels {
				t := clockReadings[(i+li)%len(clockReadings)]
				out := s.logOne(n, lv, t, format, args)
				judge(envBase+n, s.name, out, t, lv, format, args, want, modes[rc.mode].name)
				n++
			}
		}
		// every level x every clock reading
		for _, lv := range levels {
			for _, t := range clockReadings {
				out := s.logOne(n, lv, t, "%s", []any{"session \"x\" closed"})
				judge(envBase+n, s.name, out, t, lv, "%s", []any{"session \"x\" closed"}, "session \"x\" closed", "%s")
				n++
			}
		}
		if s.finish != nil {
			if v := s.finish(); v != nil {
				mu.Lock()
				key := s.name + ":" + v.key
				classCount[key]++
				vreps[key] = &vrep{envBase + n, fmt.Sprintf("[%s: %s] %s", s.name, s.desc, v.what), map[string]any{"environment": s.desc}}
				mu.Unlock()
			}
		}
		// (the blocking readers are not asked again: a surplus line of theirs is part of the record it follows)
		if extra := []byte(nil); s.name != "stdout-pipe" && s.name != "stdout-tty" && func() bool { extra = s.read(); return len(extra) != 0 }() {
			mu.Lock()
			key := s.name + ":stray-output"
			classCount[key]++
			vreps[key] = &vrep{envBase + n, fmt.Sprintf("[%s] output outside a record: %q", s.name, extra), map[string]any{"environment": s.desc}}
			mu.Unlock()
		}
		s.close()
		mu.Lock()
		envRecords += n
		mu.Unlock()
	})
	if ptyErr != nil {
		r.Note("no pseudo-terminal could be opened (%v): the answer 'standard output is a terminal' was exercised through the shim only", ptyErr)
	}

	// ---- the clock: process time zones (time.Local) x {injected local-zone readings, the real clock} -----
	// time.Local is only changed here, after every other goroutine of the harness has finished.
	clockBase := envBase + 1000000
	cn := 0
	clockMsgs := []string{"", "hello", "a\"\n", "\x00\xff\u2028"}
	savedLocal := time.Local
	zones := localZones()
	for zi, z := range zones {
		time.Local = z.loc
		var so bytes.Buffer
		var now func() time.Time
		var cur time.Time
		for _, realClock := range []bool{false, true} {
			now = nil // the Logger then uses time.Now
			name := "real-clock"
			if !realClock {
				now = func() time.Time { return cur }
				name = "local-zone-reading"
			}
			p := filepath.Join(dir, fmt.Sprintf("clock-%d-%v.log", zi, realClock))
			l, err := logger.VerifC37New([]logger.Destination{logger.DestinationStdout, logger.DestinationFile}, true, p, logger.Debug, now, &so)
			if err != nil {
				vcommon.Harness("logger init: %v", err)
			}
			tail := openTail(p, 0)
			for mi, m := range clockMsgs {
				for li, lv := range levels {
					var lo, hi time.Time
					so.Reset()
					if realClock {
						lo = time.Now().Round(0)
						l.Log(lv, "%s", m)
						hi = time.Now().Round(0)
					} else {
						// readings carried in the process' local zone (what time.Now returns), and converted from UTC
						base := clockReadings[(zi+mi+li)%len(clockReadings)]
						if (mi+li)%2 == 0 {
							cur = base.Local()
						} else {
							cur = time.Date(2026, time.Month(1+(zi+mi*4+li)%12), 28, 23, 30+li, 59, 123456789, time.Local)
						}
						lo, hi = cur, cur
						l.Log(lv, "%s", m)
					}
					sb := append([]byte(nil), so.Bytes()...)
					fb := tail.read()
					cn++
					record(clockBase+cn, "stdout-"+name, checkLineBetween(sb, lo, hi, lv, m), sb, lo, lv, "%s", []any{m}, m, "%s|tz="+z.name)
					record(clockBase+cn, "file-"+name, checkLineBetween(fb, lo, hi, lv, m), fb, lo, lv, "%s", []any{m}, m, "%s|tz="+z.name)
				}
			}
			l.Close()
			tail.f.Close()
		}
	}
	time.Local = savedLocal

	// the file of every worker must hold exactly the lines it was given (nothing buffered or lost):
	close(pool)
	for w := range pool {
		n, _ := w.rf.Read(w.rbuf)
		if n != 0 {
			r.Violation("file:stray-output", "file destination produced output outside a record", nil)
		}
		w.l.Close()
		w.rf.Close()
	}

	for key, v := range vreps {
		r.Violation(key, fmt.Sprintf("%s (%d violating lines in this class)", v.what, classCount[key]), v.replay)
	}
	r.Set("messages", len(msgs))
	r.Set("records", len(recs)*len(levels)+256*len(levels)*len(clockReadings))
	r.Set("environments", envNames)
	r.Set("environment_messages", len(emsgs))
	r.Set("environment_records", envRecords)
	r.Set("pseudo_terminal", ptyErr == nil)
	r.Set("clock_readings", len(clockReadings))
	r.Set("process_time_zones", len(zones))
	r.Set("clock_stage_records", cn)
	r.Set("violating_lines_by_class", classCount)
	r.Exhaustive = true
	r.Assumptions = []string{
		"messages longer than 4 bytes only through the fixed special sequences/contexts; the JSON grammar check trusts encoding/json (Decoder + Valid) plus an explicit UTF-8 check",
		"level codes DEB/INF/WAR/ERR are taken as the decoding table of the level field",
		"syslog destination is not structured and not covered; concurrency of Log calls is not part of this check",
		"environments: standard output {pipe, regular file, pseudo-terminal opened through /dev/ptmx (stdout seam / written to in raw mode and read on the master side), the terminal answer given through the shim}; log file {fresh, existing with previous lines, existing with a cut last line (the appended bytes are judged, not the join with the foreign fragment), truncated while open, renamed while open, re-opened by a restart}; the logger has no reopen-on-signal, so rotation with reopen does not exist; the new environments use the reduced alphabet (empty, every 1-byte message, the special sequences, terminal control sequences) x {format only, %s}",
		"real-clock records are judged against the clock readings taken right before and after the Log call (monotonic part stripped); a step of the host's clock between the two would be a false alarm",
	}
	os.RemoveAll(dir)
	r.Finish()
}
