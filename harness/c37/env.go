// C37, second dimension: the ENVIRONMENT of the destinations.
//
// The stdout destination asks the operating system whether the process' standard output is a
// terminal (term.IsTerminal(os.Stdout.Fd()) when the destination is created); the file destination
// opens a path that may or may not exist and that an administrator may rotate while it is open.
// Every environment below is built for real (a pipe, a regular file, a pseudo-terminal opened
// through /dev/ptmx, files with previous content, truncation and renaming of the open file, a
// restart on the same file) and a reduced message alphabet x every level x the clock alphabet is
// logged through a real Logger{Structured: true} in it; the oracle is the one of the main stage
// (checkLine), applied to the bytes the destination received for the record.
package main

import (
	"bytes"
	"fmt"
	"os"
	"path/filepath"
	"syscall"
	"time"
	"unsafe"

	"golang.org/x/sys/unix"
	"golang.org/x/term"

	"github.com/bluenviron/mediamtx/internal/logger"
	"github.com/bluenviron/mediamtx/internal/zzverif/vcommon"
)

// envSink is one real Logger with ONE destination living in one environment.
type envSink struct {
	name   string // destination name used in violation keys and distinct classes
	desc   string
	now    time.Time
	l      *logger.Logger
	before func(i int) // environment event that precedes record i (rotation, restart)
	read   func() []byte
	finish func() *verdict // environment-level postcondition (e.g. previous content untouched)
	close  func()
}

func (s *envSink) logOne(i int, level logger.Level, t time.Time, format string, args []any) []byte {
	if s.before != nil {
		s.before(i)
	}
	s.now = t
	s.l.Log(level, format, args...)
	return s.read()
}

// withStdout runs f while os.Stdout is the given file (what the destination inspects and, when the
// stdout seam is not used, what it writes to).
func withStdout(f *os.File, fn func()) {
	old := os.Stdout
	os.Stdout = f
	defer func() { os.Stdout = old }()
	fn()
}

// openPTY opens a pseudo-terminal pair.
func openPTY() (master, slave *os.File, err error) {
	master, err = os.OpenFile("/dev/ptmx", os.O_RDWR|syscall.O_NOCTTY, 0)
	if err != nil {
		return nil, nil, err
	}
	var n uint32
	if _, _, e := syscall.Syscall(syscall.SYS_IOCTL, master.Fd(), syscall.TIOCGPTN, uintptr(unsafe.Pointer(&n))); e != 0 {
		master.Close()
		return nil, nil, e
	}
	var unlock int32
	if _, _, e := syscall.Syscall(syscall.SYS_IOCTL, master.Fd(), syscall.TIOCSPTLCK, uintptr(unsafe.Pointer(&unlock))); e != 0 {
		master.Close()
		return nil, nil, e
	}
	slave, err = os.OpenFile(fmt.Sprintf("/dev/pts/%d", n), os.O_RDWR|syscall.O_NOCTTY, 0)
	if err != nil {
		master.Close()
		return nil, nil, err
	}
	return master, slave, nil
}

// readRecord returns what can be read from fd: it waits (bounded) for the first bytes and until the
// data ends with a newline, then takes whatever else is immediately available. The bound is only
// reached by a record that produced no output or no final newline, which the oracle then reports.
func readRecord(fd int) []byte {
	var out []byte
	buf := make([]byte, 1<<16)
	timeout := 3000
	for {
		pfd := []unix.PollFd{{Fd: int32(fd), Events: unix.POLLIN}}
		n, err := unix.Poll(pfd, timeout)
		if err == unix.EINTR {
			continue
		}
		if err != nil || n == 0 || pfd[0].Revents&unix.POLLIN == 0 {
			return out
		}
		k, err := unix.Read(fd, buf)
		if err == unix.EINTR || err == unix.EAGAIN {
			continue
		}
		if err != nil || k <= 0 {
			return out
		}
		out = append(out, buf[:k]...)
		if out[len(out)-1] == '\n' {
			timeout = 0
		} else {
			timeout = 3000
		}
	}
}

// fileTail reads what was appended to a file since the last call.
type fileTail struct {
	f   *os.File
	buf []byte
}

func openTail(p string, from int64) *fileTail {
	f, err := os.Open(p)
	if err != nil {
		vcommon.Harness("open %s: %v", p, err)
	}
	if _, err := f.Seek(from, 0); err != nil {
		vcommon.Harness("seek %s: %v", p, err)
	}
	return &fileTail{f: f, buf: make([]byte, 1<<16)}
}

func (t *fileTail) read() []byte {
	var out []byte
	for {
		n, _ := t.f.Read(t.buf)
		if n <= 0 {
			return out
		}
		out = append(out, t.buf[:n]...)
	}
}

const (
	priorPlain = "2024/01/01 00:00:00 INF MediaMTX v1.0.0\n2024/01/01 00:00:00 ERR \"quoted\" \\ back\x1b[0m\n"
	priorJSON  = `{"timestamp":"2024-01-01T00:00:00Z","level":"INF","message":"previous run"}` + "\n"
)

// buildEnvironments creates every environment. ptyErr is non-nil when no pseudo-terminal could be opened
// (the terminal answer is then only exercised through the shim).
func buildEnvironments(dir string) (sinks []*envSink, ptyErr error) {
	newLogger := func(s *envSink, dests []logger.Destination, file string, stdout *bytes.Buffer) *logger.Logger {
		var l *logger.Logger
		var err error
		now := func() time.Time { return s.now }
		if stdout != nil {
			l, err = logger.VerifC37New(dests, true, file, logger.Debug, now, stdout)
		} else {
			l, err = logger.VerifC37New(dests, true, file, logger.Debug, now, nil) // nil: the Logger takes os.Stdout
		}
		if err != nil {
			vcommon.Harness("logger init (%s): %v", s.name, err)
		}
		return l
	}
	wantTerminal := func(s *envSink, want bool) {
		got, ok := logger.VerifC37StdoutIsTerminal(s.l)
		if !ok || got != want {
			vcommon.Harness("environment %s: stdout destination detected terminal=%v (found=%v), the environment built is terminal=%v", s.name, got, ok, want)
		}
	}
	stdoutDest := []logger.Destination{logger.DestinationStdout}
	fileDest := []logger.Destination{logger.DestinationFile}

	// ---- standard output is a pipe; the destination writes to it (no seam)
	{
		pr, pw, err := os.Pipe()
		if err != nil {
			vcommon.Harness("pipe: %v", err)
		}
		s := &envSink{name: "stdout-pipe", desc: "os.Stdout is a pipe, the destination writes to it, the other end is read"}
		withStdout(pw, func() { s.l = newLogger(s, stdoutDest, "", nil) })
		wantTerminal(s, false)
		fd := int(pr.Fd())
		s.read = func() []byte { return readRecord(fd) }
		s.close = func() { s.l.Close(); pw.Close(); pr.Close() }
		sinks = append(sinks, s)
	}

	// ---- standard output is a regular file (shell redirection)
	{
		p := filepath.Join(dir, "stdout-redirected.txt")
		f, err := os.OpenFile(p, os.O_WRONLY|os.O_CREATE|os.O_TRUNC, 0o644)
		if err != nil {
			vcommon.Harness("%v", err)
		}
		s := &envSink{name: "stdout-file", desc: "os.Stdout is a regular file (redirection), the destination writes to it, the file is read back"}
		withStdout(f, func() { s.l = newLogger(s, stdoutDest, "", nil) })
		wantTerminal(s, false)
		tail := openTail(p, 0)
		s.read = tail.read
		s.close = func() { s.l.Close(); f.Close(); tail.f.Close() }
		sinks = append(sinks, s)
	}

	// ---- standard output is a terminal
	m1, s1, err := openPTY()
	if err == nil {
		// (a) the package's stdout seam captures the bytes, os.Stdout answers "terminal"
		var buf bytes.Buffer
		s := &envSink{name: "stdout-tty-seam", desc: "os.Stdout is the slave of a pseudo-terminal (/dev/ptmx); output captured through the package's stdout seam"}
		withStdout(s1, func() { s.l = newLogger(s, stdoutDest, "", &buf) })
		wantTerminal(s, true)
		s.read = func() []byte { b := append([]byte(nil), buf.Bytes()...); buf.Reset(); return b }
		s.close = func() { s.l.Close(); s1.Close(); m1.Close() }
		sinks = append(sinks, s)

		// (b) the destination writes to the terminal itself (output processing off, so that the bytes
		// read on the master side are the bytes written); read from the master side
		m2, s2, err2 := openPTY()
		if err2 == nil {
			if _, err2 = term.MakeRaw(int(s2.Fd())); err2 == nil {
				s := &envSink{name: "stdout-tty", desc: "os.Stdout is the slave of a pseudo-terminal in raw mode, the destination writes to it, the master side is read"}
				withStdout(s2, func() { s.l = newLogger(s, stdoutDest, "", nil) })
				wantTerminal(s, true)
				fd := int(m2.Fd())
				s.read = func() []byte { return readRecord(fd) }
				s.close = func() { s.l.Close(); s2.Close(); m2.Close() }
				sinks = append(sinks, s)
			}
		}
		if err2 != nil {
			ptyErr = err2
		}
	} else {
		ptyErr = err
	}

	// ---- the terminal answer given through the shim (always; the only one when no pty can be opened)
	{
		var buf bytes.Buffer
		s := &envSink{name: "stdout-terminal-answer", desc: "stdout destination constructed with the answer 'standard output is a terminal' (shim), real Logger.Log"}
		s.l = logger.VerifC37NewStdoutColor(true, logger.Debug, func() time.Time { return s.now }, &buf, true)
		wantTerminal(s, true)
		s.read = func() []byte { b := append([]byte(nil), buf.Bytes()...); buf.Reset(); return b }
		s.close = func() { s.l.Close() }
		sinks = append(sinks, s)
	}

	// ---- file destination: the file exists and holds the lines of previous runs
	for _, v := range []struct {
		name, desc, prior string
	}{
		{"file-existing", "the log file exists with previous plain and structured lines (newline-terminated)", priorPlain + priorJSON},
		{"file-existing-partial-line", "the log file exists and its last line was cut (no final newline); the bytes appended for each record are judged", priorJSON + `{"timestamp":"2024-01-01T00:00:01Z","lev`},
	} {
		p := filepath.Join(dir, v.name+".log")
		if err := os.WriteFile(p, []byte(v.prior), 0o600); err != nil {
			vcommon.Harness("%v", err)
		}
		s := &envSink{name: v.name, desc: v.desc}
		s.l = newLogger(s, fileDest, p, nil)
		tail := openTail(p, int64(len(v.prior)))
		s.read = tail.read
		prior := v.prior
		s.finish = func() *verdict {
			b, err := os.ReadFile(p)
			if err != nil || !bytes.HasPrefix(b, []byte(prior)) {
				return &verdict{"previous-content-altered", fmt.Sprintf("the content the file had before the logger opened it is no longer its beginning (%v)", err)}
			}
			return nil
		}
		s.close = func() { s.l.Close(); tail.f.Close() }
		sinks = append(sinks, s)
	}

	// ---- file destination: rotation by copy-and-truncate while the file is open
	{
		p := filepath.Join(dir, "file-truncated.log")
		s := &envSink{name: "file-truncated", desc: "the open log file is truncated to zero every 64 records (copytruncate rotation)"}
		s.l = newLogger(s, fileDest, p, nil)
		tail := openTail(p, 0)
		s.before = func(i int) {
			if i%64 == 63 {
				if err := os.Truncate(p, 0); err != nil {
					vcommon.Harness("truncate: %v", err)
				}
				if _, err := tail.f.Seek(0, 0); err != nil {
					vcommon.Harness("seek: %v", err)
				}
			}
		}
		s.read = tail.read
		s.close = func() { s.l.Close(); tail.f.Close() }
		sinks = append(sinks, s)
	}

	// ---- file destination: rotation by renaming the open file
	{
		p := filepath.Join(dir, "file-renamed.log")
		s := &envSink{name: "file-renamed", desc: "the open log file is renamed every 100 records (rename rotation without a reopen: the logger has none); records follow the file"}
		s.l = newLogger(s, fileDest, p, nil)
		tail := openTail(p, 0)
		cur := p
		s.before = func(i int) {
			if i%100 == 99 {
				next := fmt.Sprintf("%s.%d", p, i)
				if err := os.Rename(cur, next); err != nil {
					vcommon.Harness("rename: %v", err)
				}
				cur = next
			}
		}
		s.read = tail.read
		s.close = func() { s.l.Close(); tail.f.Close() }
		sinks = append(sinks, s)
	}

	// ---- file destination: the server is restarted on the same file
	{
		p := filepath.Join(dir, "file-restart.log")
		s := &envSink{name: "file-restart", desc: "the Logger is closed and a new one initialized on the same file every 128 records (restart; the file then exists with structured lines)"}
		s.l = newLogger(s, fileDest, p, nil)
		tail := openTail(p, 0)
		s.before = func(i int) {
			if i%128 == 127 {
				s.l.Close()
				s.l = newLogger(s, fileDest, p, nil)
			}
		}
		s.read = tail.read
		s.close = func() { s.l.Close(); tail.f.Close() }
		sinks = append(sinks, s)
	}
	return sinks, ptyErr
}

// envMessages is the reduced message alphabet of the environment stage: the empty message, every
// 1-byte message, the special sequences, and messages that carry terminal control sequences themselves.
func envMessages() []string {
	out := []string{""}
	for b := 0; b < 256; b++ {
		out = append(out, string([]byte{byte(b)}))
	}
	out = append(out, specials...)
	out = append(out, "a\"\n", "\x1b[0;36mDEB\x1b[0m", "\x1b[0m", "path \xe2\x80\xa8 is \xff ready\\", "[conn 127.0.0.1:1234] opened")
	return out
}

// localZones is the alphabet of process time zones (time.Local) of the clock stage.
func localZones() []struct {
	name string
	loc  *time.Location
} {
	must := func(n string) *time.Location {
		l, err := time.LoadLocation(n)
		if err != nil {
			vcommon.Harness("zone %s: %v", n, err)
		}
		return l
	}
	return []struct {
		name string
		loc  *time.Location
	}{
		{"UTC", time.UTC},
		{"+05:30", time.FixedZone("IST", 5*3600+30*60)},
		{"-08:00", time.FixedZone("PST", -8*3600)},
		{"+14:00", time.FixedZone("LINT", 14*3600)},
		{"-03:30/-02:30", must("America/St_Johns")},
		{"Europe/Rome", must("Europe/Rome")},
		{"Asia/Kolkata", must("Asia/Kolkata")},
		{"Pacific/Kiritimati", must("Pacific/Kiritimati")},
	}
}
