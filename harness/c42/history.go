// C42, history dimension: the values substituted into a template are those of the CURRENT
// activation only.
//
// Part 1 (static sources): ONE real staticsources.Handler (its Start/Stop/run code and the real
// resolveSource; only the protocol client is replaced by an instance that records the ResolvedSource
// of each Run and then blocks until cancelled, like every real source) is taken through every
// sequence of <= 4 activation cycles Start(onDemand_i, query_i) / Stop over a query alphabet that
// contains the empty query. Oracle, from the statement only: the ResolvedSource of activation i is
// the template resolved with query_i and the path's groups -- equal to the single-pass reference
// AND equal to what a FRESH handler resolves for (onDemand_i, query_i). Nothing of activations < i
// may be visible.
//
// Part 2 (forward destinations): the real forward.Manager/DestHandler keep no per-activation value
// (path name and groups are fixed when the handler is created, the template can change through
// ReloadConf). All sequences of <= 3 cycles {template_i applied through ReloadConf before Start or
// while started} / Start / Stop on ONE manager; oracle: every activation dials the template that is
// configured at that moment resolved with the path name and groups of the manager. Observed through
// the handler's own "forwarding to" log line; the destination is a closed loopback port.
package main

import (
	"context"
	"fmt"
	"net"
	"sort"
	"strings"
	"sync"
	"time"

	"github.com/bluenviron/gortsplib/v5/pkg/description"
	"github.com/bluenviron/gortsplib/v5/pkg/format"

	"github.com/bluenviron/mediamtx/internal/conf"
	"github.com/bluenviron/mediamtx/internal/defs"
	"github.com/bluenviron/mediamtx/internal/forward"
	"github.com/bluenviron/mediamtx/internal/logger"
	"github.com/bluenviron/mediamtx/internal/staticsources"
	"github.com/bluenviron/mediamtx/internal/stream"
	"github.com/bluenviron/mediamtx/internal/zzverif/vcommon"
)

// a wait that is never part of a verdict: expiry = harness error.
const histGuard = 60 * time.Second

type recInstance struct {
	resolved chan string
}

func (*recInstance) Log(logger.Level, string, ...any) {}

func (ri *recInstance) Run(p defs.StaticSourceRunParams) error {
	ri.resolved <- p.ResolvedSource
	<-p.Context.Done()
	return context.Canceled
}

func (*recInstance) APISourceDescribe() *defs.APIPathSource { return &defs.APIPathSource{} }

type recParent struct{}

func (recParent) Log(logger.Level, string, ...any) {}

func (recParent) StaticSourceHandlerSetReady(context.Context, defs.PathSourceStaticSetReadyReq) {}

func (recParent) StaticSourceHandlerSetNotReady(context.Context, defs.PathSourceStaticSetNotReadyReq) {
}

type srcSetup struct {
	label    string
	template string
	matches  []string
}

type activation struct {
	onDemand bool
	query    string
}

func newRecHandler(su srcSetup) (*staticsources.Handler, *recInstance) {
	inst := &recInstance{resolved: make(chan string, 1)}
	h := &staticsources.Handler{
		Conf:    &conf.Path{Source: su.template, SourceOnDemand: true},
		Matches: su.matches,
		Parent:  recParent{},
	}
	h.Initialize()
	staticsources.VerifC42SetInstance(h, inst)
	return h, inst
}

// one activation cycle on h; returns the ResolvedSource the instance was run with.
func activate(h *staticsources.Handler, inst *recInstance, a activation) string {
	h.Start(a.onDemand, a.query)
	var got string
	select {
	case got = <-inst.resolved:
	case <-time.After(histGuard):
		vcommon.Harness("history: the handler did not run its source after Start(%v, %q)", a.onDemand, a.query)
	}
	h.Stop("verif")
	return got
}

type histPending struct {
	key, what string
	replay    any
}

func historySources(r *vcommon.Run) {
	queries := []string{"", "a=1", "token=bob", "k=a%20b%26c&l=d+e/f?g#h"}
	maxCycles := 4
	if r.Thorough() {
		queries = append(queries, "token=alice")
		maxCycles = 5
	}
	setups := []srcSetup{
		{"groups+query", "rtsp://$G1.example.com/$G2?$MTX_QUERY", []string{"cam_host_stream", "host", "stream"}},
		{"query-twice-no-groups", "rtsp://h/s?$MTX_QUERY&again=$MTX_QUERY", nil},
		{"groups-no-query", "rtsp://$G1.example.com/$G2", []string{"cam_host_stream", "host", "stream"}},
	}
	var alphabet []activation
	for _, od := range []bool{true, false} {
		for _, q := range queries {
			alphabet = append(alphabet, activation{od, q})
		}
	}

	// all sequences of 1..maxCycles activations
	var hists [][]activation
	var rec func(prefix []activation)
	rec = func(prefix []activation) {
		if len(prefix) > 0 {
			hists = append(hists, append([]activation(nil), prefix...))
		}
		if len(prefix) == maxCycles {
			return
		}
		for _, a := range alphabet {
			rec(append(prefix, a))
		}
	}
	rec(nil)
	// shortest histories first: the replay kept for a class is a minimal one
	sort.SliceStable(hists, func(i, j int) bool { return len(hists[i]) < len(hists[j]) })

	var activations, withEarlierOther int64
	var mu sync.Mutex
	for _, su := range setups {
		// expected value of one activation: single-pass reference of the statement, cross-checked
		// with a FRESH real handler
		want := map[activation]string{}
		for _, a := range alphabet {
			ref := reference(fnSource, su.template, su.matches, "", a.query)
			if ref.skip != "" {
				vcommon.Harness("history: template %q is outside the judged space (%s)", su.template, ref.skip)
			}
			straddle, _, w := analyse(ref.pieces)
			if straddle {
				vcommon.Harness("history: template %q query %q forms a hybrid placeholder", su.template, a.query)
			}
			h, inst := newRecHandler(su)
			fresh := activate(h, inst, a)
			r.Eval(1)
			if fresh != w {
				r.Violation("source-handler:fresh-activation-differs-from-statement",
					fmt.Sprintf("fresh handler, template %q groups %q, Start(onDemand=%v, query %q): ResolvedSource %q, statement demands %q",
						su.template, su.matches, a.onDemand, a.query, fresh, w),
					map[string]any{"template": su.template, "matches": su.matches, "history": []activation{a}, "got": fresh, "want": w})
			}
			want[a] = w
		}

		pend := make([][]histPending, len(hists))
		vcommon.Parallel(len(hists), func(hi int) {
			hist := hists[hi]
			h, inst := newRecHandler(su)
			var n, wo int64
			for i, a := range hist {
				got := activate(h, inst, a)
				n++
				earlierOther := false
				for _, b := range hist[:i] {
					if b.query != a.query {
						earlierOther = true
					}
				}
				if earlierOther {
					wo++
				}
				if got == want[a] {
					continue
				}
				// classify by what the wrong value is made of (stable keys)
				key := "source-handler:activation-resolved-wrong"
				for _, b := range hist[:i] {
					if b.query != a.query && got == want[activation{a.onDemand, b.query}] {
						if a.query == "" {
							key = "source-handler:stale-query-of-earlier-activation:current-query-empty"
						} else {
							key = "source-handler:stale-query-of-earlier-activation:current-query-nonempty"
						}
						break
					}
				}
				pend[hi] = append(pend[hi], histPending{key,
					fmt.Sprintf("ONE handler, template %q groups %q, activation %d of history %s: ResolvedSource %q, "+
						"the statement (and a fresh handler) give %q for the current client's query %q",
						su.template, su.matches, i+1, fmtHist(hist[:i+1]), got, want[a], a.query),
					map[string]any{"template": su.template, "matches": su.matches, "history": fmtHist(hist[:i+1]),
						"activation": i + 1, "got": got, "want": want[a]}})
			}
			r.Eval(int(n))
			mu.Lock()
			activations += n
			withEarlierOther += wo
			mu.Unlock()
			// distinct class: (setup, length, pattern of the last activation against the history)
			last := hist[len(hist)-1]
			pat := "first"
			if len(hist) > 1 {
				prev := hist[len(hist)-2]
				switch {
				case prev.query == last.query:
					pat = "same-as-previous"
				case last.query == "":
					pat = "empty-after-nonempty"
				case prev.query == "":
					pat = "nonempty-after-empty"
				default:
					pat = "nonempty-after-other-nonempty"
				}
			}
			r.Distinct(fmt.Sprintf("history|source|%s|len=%d|%s|onDemand=%v", su.label, len(hist), pat, last.onDemand))
		})
		for _, ps := range pend {
			for _, p := range ps {
				r.Violation(p.key, p.what, p.replay)
			}
		}
	}
	r.Set("history_source_setups", len(setups))
	r.Set("history_source_histories_per_setup", len(hists))
	r.Set("history_source_activations", activations)
	r.Set("history_source_activations_after_a_different_query", withEarlierOther)
	if withEarlierOther == 0 {
		vcommon.Harness("history: vacuous (no activation preceded by a different query)")
	}
	r.Sample(map[string]any{"part": "history/source", "setups": len(setups), "histories_per_setup": len(hists),
		"example_history": fmtHist(hists[len(hists)-1])})
}

func fmtHist(h []activation) string {
	var parts []string
	for _, a := range h {
		od := "start"
		if a.onDemand {
			od = "startOnDemand"
		}
		parts = append(parts, fmt.Sprintf("%s(%q)/stop", od, a.query))
	}
	return strings.Join(parts, " ")
}

// ---------------------------------------------------------------------------------------------
// forward destinations

type fwdLog struct {
	dests chan string // every "forwarding to '<dest>'" line
}

func (l *fwdLog) Log(_ logger.Level, f string, a ...any) {
	msg := fmt.Sprintf(f, a...)
	const mark = "forwarding to '"
	i := strings.Index(msg, mark)
	if i < 0 {
		return
	}
	d := msg[i+len(mark):]
	d = strings.TrimSuffix(d, "'")
	l.dests <- d
}

type fwdStep struct {
	tmpl        int
	whileActive bool // ReloadConf after Start (else before)
}

func historyForward(r *vcommon.Run) {
	// a loopback port that refuses connections: the dial fails at once, the handler then pauses
	// (retryPause, 5 s) and is stopped long before it would retry.
	ln, err := net.Listen("tcp", "127.0.0.1:0")
	if err != nil {
		vcommon.Harness("history/forward: listen: %v", err)
	}
	addr := ln.Addr().String()
	ln.Close()

	pathName := "cam_host_stream"
	matches := []string{"cam_host_stream", "host", "stream"}
	templates := []string{
		"rtmp://" + addr + "/$MTX_PATH/$G1",
		"rtmp://" + addr + "/$G2/$G1?p=$MTX_PATH",
		"rtmp://" + addr + "/fixed",
	}
	wantOf := make([]string, len(templates))
	for i, t := range templates {
		ref := reference(fnDest, t, matches, pathName, "")
		if ref.skip != "" {
			vcommon.Harness("history/forward: template %q outside the judged space", t)
		}
		_, _, wantOf[i] = analyse(ref.pieces)
	}

	desc := &description.Session{Medias: []*description.Media{{
		Type: description.MediaTypeVideo,
		Formats: []format.Format{&format.H264{
			PayloadTyp:        96,
			SPS:               []byte{0x67, 0x42, 0xc0, 0x28, 0xd9, 0x00, 0x78, 0x02, 0x27, 0xe5, 0x84, 0x00, 0x00, 0x03, 0x00, 0x04, 0x00, 0x00, 0x03, 0x00, 0xf0, 0x3c, 0x60, 0xc9, 0x20},
			PPS:               []byte{0x08, 0x06, 0x07, 0x08},
			PacketizationMode: 1,
		}},
	}}}

	maxCycles := 3
	var steps []fwdStep
	for t := range templates {
		steps = append(steps, fwdStep{t, false}, fwdStep{t, true})
	}
	var hists [][]fwdStep
	var rec func(prefix []fwdStep)
	rec = func(prefix []fwdStep) {
		if len(prefix) > 0 {
			hists = append(hists, append([]fwdStep(nil), prefix...))
		}
		if len(prefix) == maxCycles {
			return
		}
		for _, s := range steps {
			rec(append(prefix, s))
		}
	}
	rec(nil)
	sort.SliceStable(hists, func(i, j int) bool { return len(hists[i]) < len(hists[j]) })

	var acts int64
	var mu sync.Mutex
	pend := make([][]histPending, len(hists))
	vcommon.Parallel(len(hists), func(hi int) {
		hist := hists[hi]
		strm := &stream.Stream{OrigDesc: desc, WriteQueueSize: 512, RTPMaxPayloadSize: 1450, Parent: recParent{}}
		if err2 := strm.Initialize(); err2 != nil {
			vcommon.Harness("history/forward: stream: %v", err2)
		}
		defer strm.Close()
		lg := &fwdLog{dests: make(chan string, 16)}
		cur := 0 // template configured at the moment
		m := &forward.Manager{
			ReadTimeout: conf.Duration(10 * time.Second), WriteTimeout: conf.Duration(10 * time.Second),
			PathName: pathName, Matches: matches,
			Forward: conf.Forward{{Dest: templates[cur]}},
			Parent:  lg,
		}
		m.Initialize()
		next := func(what string) string {
			select {
			case d := <-lg.dests:
				return d
			case <-time.After(histGuard):
				vcommon.Harness("history/forward: no 'forwarding to' line after %s (history %v)", what, hist)
			}
			return ""
		}
		var n int64
		check := func(i int, got string, what string) {
			n++
			if got == wantOf[cur] {
				return
			}
			key := "forward-handler:activation-resolved-wrong"
			for t := range templates {
				if t != cur && got == wantOf[t] {
					key = "forward-handler:destination-of-earlier-configuration"
				}
			}
			pend[hi] = append(pend[hi], histPending{key,
				fmt.Sprintf("ONE forward manager, path %q groups %q, cycle %d of history %v (%s): dials %q, configured template %q resolves to %q",
					pathName, matches, i+1, hist[:i+1], what, got, templates[cur], wantOf[cur]),
				map[string]any{"pathName": pathName, "matches": matches, "history": fmt.Sprint(hist[:i+1]), "got": got, "want": wantOf[cur]}})
		}
		for i, st := range hist {
			if !st.whileActive {
				cur = st.tmpl
				m.ReloadConf(conf.Forward{{Dest: templates[cur]}})
				m.Start(strm)
				check(i, next("Start"), "Start after ReloadConf")
			} else {
				m.Start(strm)
				check(i, next("Start"), "Start")
				if st.tmpl != cur {
					cur = st.tmpl
					m.ReloadConf(conf.Forward{{Dest: templates[cur]}})
					check(i, next("ReloadConf while started"), "ReloadConf while started")
				} else {
					m.ReloadConf(conf.Forward{{Dest: templates[cur]}})
				}
			}
			m.Stop()
			// nothing else may have been dialled during the cycle
			for more := true; more; {
				select {
				case d := <-lg.dests:
					check(i, d, "additional activation inside the cycle")
				default:
					more = false
				}
			}
		}
		r.Eval(int(n))
		mu.Lock()
		acts += n
		mu.Unlock()
		last := hist[len(hist)-1]
		r.Distinct(fmt.Sprintf("history|forward|len=%d|template=%d|whileActive=%v", len(hist), last.tmpl, last.whileActive))
	})
	for _, ps := range pend {
		for _, p := range ps {
			r.Violation(p.key, p.what, p.replay)
		}
	}
	r.Set("history_forward_histories", len(hists))
	r.Set("history_forward_activations", acts)
}
