// C42: source and destination templates substitute placeholders exactly.
// Engine B: every template over a token alphabet (all token sequences up to a length) x group
// vectors x inserted values is run through the real resolveSource / resolveDest and compared
// with a single-pass, maximal-munch tokenising substituter written from the statement.
package main

import (
	"fmt"
	"sort"
	"strconv"
	"strings"
	"sync/atomic"

	"github.com/bluenviron/mediamtx/internal/forward"
	"github.com/bluenviron/mediamtx/internal/staticsources"
	"github.com/bluenviron/mediamtx/internal/zzverif/vcommon"
)

const (
	fnSource = "source"
	fnDest   = "dest"
)

// piece of the reference output.
type piece struct {
	text     string
	inserted bool
	kind     string // L | G<n> | P | Q
}

type refResult struct {
	pieces      []piece
	skip        string // non-empty: case is outside the judged space (reason)
	multiDigit  bool
	repeated    bool
	placeholder int
}

func isDigit(c byte) bool { return c >= '0' && c <= '9' }

// reference: one left-to-right pass over the template; at every position the longest documented
// placeholder is recognised ($G followed by the maximal digit run; $MTX_PATH for destinations,
// $MTX_QUERY for sources); everything else is copied. Inserted values are never looked at again.
func reference(fn, tmpl string, groups []string, pathName, query string) refResult {
	var res refResult
	seen := map[string]int{}
	var lit strings.Builder
	flush := func() {
		if lit.Len() > 0 {
			res.pieces = append(res.pieces, piece{text: lit.String(), kind: "L"})
			lit.Reset()
		}
	}
	// groups[0] is the whole match; len(groups)-1 capture groups exist.
	ngroups := len(groups) - 1
	for i := 0; i < len(tmpl); {
		rest := tmpl[i:]
		switch {
		case strings.HasPrefix(rest, "$MTX_PATH"):
			if fn != fnDest {
				res.skip = "undocumented-placeholder"
				return res
			}
			flush()
			res.pieces = append(res.pieces, piece{text: pathName, inserted: true, kind: "P"})
			seen["P"]++
			res.placeholder++
			i += len("$MTX_PATH")
		case strings.HasPrefix(rest, "$MTX_QUERY"):
			if fn != fnSource {
				res.skip = "undocumented-placeholder"
				return res
			}
			flush()
			res.pieces = append(res.pieces, piece{text: query, inserted: true, kind: "Q"})
			seen["Q"]++
			res.placeholder++
			i += len("$MTX_QUERY")
		case len(rest) >= 3 && rest[0] == '$' && rest[1] == 'G' && isDigit(rest[2]):
			j := 2
			for j < len(rest) && isDigit(rest[j]) {
				j++
			}
			digits := rest[2:j]
			n, err := strconv.Atoi(digits)
			if err != nil || digits[0] == '0' || n < 1 || n > ngroups {
				res.skip = "nonexistent-group"
				return res
			}
			if len(digits) > 1 {
				res.multiDigit = true
			}
			flush()
			k := "G" + digits
			res.pieces = append(res.pieces, piece{text: groups[n], inserted: true, kind: k})
			seen[k]++
			res.placeholder++
			i += j
		default:
			lit.WriteByte(tmpl[i])
			i++
		}
	}
	flush()
	for _, c := range seen {
		if c > 1 {
			res.repeated = true
		}
	}
	return res
}

// straddles reports whether the reference output contains a placeholder-looking string that is not
// wholly inside one piece (formed partly by template text and partly by an inserted value, or
// by two template runs joined over an empty value). The statement forbids replacing placeholders
// *inside* inserted values and demands replacing those *of the template*; it says nothing about
// such hybrids, so they are not judged.
// insidePattern reports whether an inserted value wholly contains a placeholder-looking string.
func analyse(pieces []piece) (straddle bool, insidePattern bool, out string) {
	var sb strings.Builder
	var pieceOf []int
	for pi, p := range pieces {
		sb.WriteString(p.text)
		for range len(p.text) {
			pieceOf = append(pieceOf, pi)
		}
	}
	out = sb.String()
	check := func(i, n int) {
		// occurrence out[i:i+n]
		first := pieceOf[i]
		last := pieceOf[i+n-1]
		if first != last {
			straddle = true
			return
		}
		if pieces[first].inserted {
			insidePattern = true
		}
		// wholly inside a literal piece: cannot be a documented existing placeholder (the tokeniser
		// would have consumed it); nothing to do.
	}
	for i := 0; i < len(out); i++ {
		if out[i] != '$' {
			continue
		}
		rest := out[i:]
		if strings.HasPrefix(rest, "$MTX_PATH") {
			check(i, len("$MTX_PATH"))
		}
		if strings.HasPrefix(rest, "$MTX_QUERY") {
			check(i, len("$MTX_QUERY"))
		}
		if len(rest) >= 3 && rest[1] == 'G' && isDigit(rest[2]) {
			check(i, 3)
		}
	}
	return
}

// extended returns the kind (P or Q) of an inserted $MTX_PATH/$MTX_QUERY value whose leading digits
// directly follow a $G<n> of the template and extend its index to another EXISTING group index
// (n*10+d <= group count): a substituter that inserts that value before expanding the groups then
// reads the longer index. Empty string if the case has no such adjacency.
func extended(pieces []piece, ngroups int) string {
	for i, p := range pieces {
		if !strings.HasPrefix(p.kind, "G") {
			continue
		}
		n, _ := strconv.Atoi(p.kind[1:])
		for j := i + 1; j < len(pieces); j++ {
			if pieces[j].text == "" {
				continue
			}
			if (pieces[j].kind == "P" || pieces[j].kind == "Q") && isDigit(pieces[j].text[0]) &&
				n*10+int(pieces[j].text[0]-'0') <= ngroups {
				return pieces[j].kind
			}
			break
		}
	}
	return ""
}

type groupVec struct {
	label  string
	groups []string // nil or [full, g1, ...]
}

func main() {
	r := vcommon.Start("C42", "exploration")

	tokens := []string{"x", "0", "1", "$G1", "$G2", "$G10", "$G11", "$MTX_PATH", "$MTX_QUERY", "$", "$G", "$MTX_", "/"}
	maxTok := 4
	values := []string{"A", "", "1", "0"}
	queries := []string{"a=b", "", "1", "$G1", "$G10", "$MTX_QUERY", "$MTX_PATH", "x$G2y"}
	pathNames := []string{"p", "1", "G1", "a/b", "MTX_PATH"}
	if r.Thorough() {
		tokens = append(tokens, "$G3", "$G12", "QUERY", "G1")
		values = append(values, "QUERY", "G1", "a/b.c-d_e")
		queries = append(queries, "$", "$G", "$G1$G1", "k=$G11&l=$MTX_QUERY")
		pathNames = append(pathNames, "0", "QUERY", "x.y/z-_")
	}

	// group vectors: no groups (static path: nil), zero groups, 1, 2, and 11/12 groups
	var gvecs []groupVec
	gvecs = append(gvecs, groupVec{"nil", nil}, groupVec{"n=0", []string{"full"}})
	for _, v1 := range values {
		gvecs = append(gvecs, groupVec{"n=1", []string{"full", v1}})
	}
	for _, v1 := range values {
		for _, v2 := range values {
			gvecs = append(gvecs, groupVec{"n=2", []string{"full", v1, v2}})
		}
	}
	big := 11
	if r.Thorough() {
		big = 12
	}
	for _, v1 := range values {
		for _, v10 := range values {
			g := []string{"full", v1, "C"}
			for i := 3; i <= big; i++ {
				g = append(g, "g"+strconv.Itoa(i))
			}
			g[10] = v10
			g[11] = "B"
			gvecs = append(gvecs, groupVec{"n=" + strconv.Itoa(big), g})
		}
	}

	// all token sequences of length 0..maxTok, deduplicated as strings
	tset := map[string]struct{}{}
	var rec func(prefix string, depth int)
	rec = func(prefix string, depth int) {
		tset[prefix] = struct{}{}
		if depth == maxTok {
			return
		}
		for _, t := range tokens {
			rec(prefix+t, depth+1)
		}
	}
	rec("", 0)
	templates := make([]string, 0, len(tset))
	for t := range tset {
		templates = append(templates, t)
	}
	sort.Slice(templates, func(i, j int) bool {
		if len(templates[i]) != len(templates[j]) {
			return len(templates[i]) < len(templates[j])
		}
		return templates[i] < templates[j]
	})

	r.Rule = fmt.Sprintf("templates = all concatenations of <=%d tokens over %d tokens (%d distinct strings) x %d group vectors "+
		"(nil, 0, 1, 2, %d groups; values over %d strings of the path alphabet incl. empty) x %d queries (resolveSource) / %d path names (resolveDest); "+
		"distinct = (function, sequence of reference piece kinds, group count, class of inserted value)",
		maxTok, len(tokens), len(templates), len(gvecs), big, len(values), len(queries), len(pathNames)) +
		"; HISTORY: every sequence of <=4 (thorough 5) Start(onDemand,query)/Stop cycles over {on demand, not} x 4 (thorough 5) queries incl. the empty one " +
		"on ONE real staticsources.Handler (recording source instance) for 3 templates, each activation's ResolvedSource compared with the statement's " +
		"resolution for the CURRENT query (= a fresh handler's); every sequence of <=3 cycles {3 templates x ReloadConf before/after Start} on ONE real forward.Manager"

	var judged, skipUndoc, skipNoGroup, skipStraddle, straddleDiffers, insideCases, changed atomic.Int64

	// per-template accumulators (merged once per template: no contended atomics in the inner loop)
	type local struct {
		evals, judged, skipUndoc, skipNoGroup, skipStraddle, straddleDiffers, insideCases, changed int64
		distinct                                                                                   map[string]struct{}
		samples                                                                                    []any
		violCount                                                                                  map[string]int
	}
	locals := make([]*local, len(templates))

	// violations are collected per template and reported in template order afterwards, so that the
	// replay kept for a class is the same (shortest template) on every run.
	type pending struct {
		key, what string
		replay    any
	}
	pend := make([][]pending, len(templates))

	run := func(ti int, fn, tmpl string, gv groupVec, pathName, query string) {
		lc := locals[ti]
		lc.evals++
		ref := reference(fn, tmpl, gv.groups, pathName, query)
		switch ref.skip {
		case "undocumented-placeholder":
			lc.skipUndoc++
			return
		case "nonexistent-group":
			lc.skipNoGroup++
			return
		}
		straddle, inside, want := analyse(ref.pieces)
		var got string
		if fn == fnSource {
			got = staticsources.VerifC42ResolveSource(tmpl, gv.groups, query)
		} else {
			got = forward.VerifC42ResolveDest(tmpl, pathName, gv.groups)
		}
		if straddle {
			lc.skipStraddle++
			if got != want {
				lc.straddleDiffers++
			}
			return
		}
		lc.judged++
		if inside {
			lc.insideCases++
		}
		if want != tmpl {
			lc.changed++
		}
		kinds := make([]string, len(ref.pieces))
		for i, p := range ref.pieces {
			kinds[i] = p.kind
		}
		ic := "plain"
		if inside {
			ic = "value-contains-placeholder"
		}
		if ref.placeholder > 0 {
			lc.distinct[fn+"|"+strings.Join(kinds, " ")+"|"+gv.label+"|"+ic] = struct{}{}
		}
		if got != want {
			cat := "basic"
			switch {
			case extended(ref.pieces, len(gv.groups)-1) == "P":
				cat = "group-index-extended-by-digit-of-MTX_PATH"
			case extended(ref.pieces, len(gv.groups)-1) == "Q":
				cat = "group-index-extended-by-digit-of-MTX_QUERY"
			case inside:
				cat = "placeholder-inside-inserted-value-replaced"
			case ref.multiDigit:
				cat = "multi-digit-index"
			case ref.repeated:
				cat = "repeated-placeholder"
			}
			lc.violCount[fn+":"+cat]++
			if lc.violCount[fn+":"+cat] > 1 {
				return
			}
			pend[ti] = append(pend[ti], pending{fn + ":" + cat,
				fmt.Sprintf("%s template %q groups %q path %q query %q: got %q, statement demands %q", fn, tmpl, gv.groups, pathName, query, got, want),
				map[string]any{"function": fn, "template": tmpl, "matches": gv.groups, "pathName": pathName, "query": query, "got": got, "want": want}})
			return
		}
		if ref.placeholder >= 2 && (inside || ref.multiDigit) {
			if len(lc.samples) < 1 && ti%997 == 0 {
				lc.samples = append(lc.samples, map[string]any{"function": fn, "template": tmpl, "matches": gv.groups, "pathName": pathName, "query": query, "result": got})
			}
		}
	}

	vcommon.Parallel(len(templates), func(ti int) {
		tmpl := templates[ti]
		locals[ti] = &local{distinct: map[string]struct{}{}, violCount: map[string]int{}}
		defer func() {
			lc := locals[ti]
			r.Eval(int(lc.evals))
			judged.Add(lc.judged)
			skipUndoc.Add(lc.skipUndoc)
			skipNoGroup.Add(lc.skipNoGroup)
			skipStraddle.Add(lc.skipStraddle)
			straddleDiffers.Add(lc.straddleDiffers)
			insideCases.Add(lc.insideCases)
			changed.Add(lc.changed)
			for k := range lc.distinct {
				r.Distinct(k)
			}
			lc.distinct = nil
		}()
		for _, gv := range gvecs {
			if strings.Contains(tmpl, "$MTX_QUERY") {
				for _, q := range queries {
					run(ti, fnSource, tmpl, gv, "", q)
				}
			} else {
				run(ti, fnSource, tmpl, gv, "", queries[0])
			}
			if strings.Contains(tmpl, "$MTX_PATH") {
				for _, p := range pathNames {
					run(ti, fnDest, tmpl, gv, p, "")
				}
			} else {
				run(ti, fnDest, tmpl, gv, pathNames[0], "")
			}
		}
	})

	for ti, ps := range pend {
		for _, p := range ps {
			for range locals[ti].violCount[p.key] {
				r.Violation(p.key, p.what, p.replay)
			}
		}
	}
	for _, lc := range locals {
		for _, sm := range lc.samples {
			r.Sample(sm)
		}
	}

	// history dimension: ONE real handler / forward manager over sequences of activations
	historySources(r)
	historyForward(r)

	r.Set("judged_cases", judged.Load())
	r.Set("judged_cases_result_differs_from_template", changed.Load())
	r.Set("judged_cases_with_placeholder_inside_inserted_value", insideCases.Load())
	r.Set("not_judged_undocumented_placeholder", skipUndoc.Load())
	r.Set("not_judged_nonexistent_group", skipNoGroup.Load())
	r.Set("not_judged_hybrid_placeholder_across_insertion_boundary", skipStraddle.Load())
	r.Set("hybrid_cases_where_impl_differs_from_single_pass", straddleDiffers.Load())
	if judged.Load() == 0 || insideCases.Load() == 0 {
		vcommon.Harness("vacuous: judged=%d inside=%d", judged.Load(), insideCases.Load())
	}
	r.Exhaustive = true
	r.Assumptions = []string{
		"group values and path names range over the valid path-name alphabet (no '$'): they are substrings of names accepted by conf.IsValidPathName",
		"not judged (DESIGN don't-cares): templates referencing a non-existent group ($G0, $G01, index > group count, any $G<n> on a non-regexp path), " +
			"placeholders a function does not document ($MTX_PATH in sources, $MTX_QUERY in destinations)",
		"not judged: placeholder-looking strings that arise partly from template text and partly from an inserted value (e.g. template '$G$G2' with G2='1'); " +
			"the statement only speaks of placeholders of the template and of placeholders inside an inserted value",
		"template alphabet: only the pure functions resolveSource/resolveDest are driven; the handlers that call them are driven by the history part with 3 templates each",
		"history part: the protocol client of the static source handler is replaced by a recording instance (shim VerifC42SetInstance); Start/Stop/run and resolveSource are the real ones. " +
			"Re-activation after a source error (5 s retry pause) and ReloadConf of a running source are not in the history alphabet",
		"history part, forward: the resolved destination is read from the handler's own 'forwarding to' log line (credentials/fragment are stripped there; the templates have none)",
	}
	r.Finish()
}
