package main

// Worker side of the "live state" family of C13 (see live.go).
//
// One case = two REAL Cores in this process, both alive at the same time on two private port blocks:
//   side "reload": started with Old, real RTSP clients attached, brought to New by a reload, clients re-attached where
//                  the server dropped them;
//   side "fresh":  started with New, the same clients attached.
// Both are then observed through their HTTP interfaces (Control API, metrics, playback) in rounds until the two
// observations are equal and every explicit wait condition holds on both sides, or the liveness bound expires.

import (
	"encoding/json"
	"fmt"
	"io"
	"net/http"
	"os"
	"path/filepath"
	"regexp"
	"runtime"
	"sort"
	"strconv"
	"strings"
	"sync"
	"sync/atomic"
	"time"

	"github.com/bluenviron/gortsplib/v5"
	"github.com/bluenviron/gortsplib/v5/pkg/base"
	"github.com/bluenviron/gortsplib/v5/pkg/description"
	"github.com/bluenviron/gortsplib/v5/pkg/format"
	"github.com/pion/rtp"

	"github.com/bluenviron/mediamtx/internal/core"
	"github.com/bluenviron/mediamtx/internal/zzverif/c12lib"
	"github.com/bluenviron/mediamtx/internal/zzverif/e2elib"
)

// port indices of a live-family Core inside its block
const (
	lAPI = iota
	lMetrics
	lPlayback
	lRTSP
	lHLS
	lRTMP
	livePorts = 8
)

const livePath = "live"

// LiveCase is one case of the live-state family.
type LiveCase struct {
	ID       int            `json:"id"`
	Pair     string         `json:"pair"`
	Old      map[string]any `json:"old"`
	New      map[string]any `json:"new"`
	Route    string         `json:"route"`           // file | api
	Patch    map[string]any `json:"patch,omitempty"` // route api: body of PATCH /v3/config/global/patch
	Mode     string         `json:"mode"`            // pub | pub+reader | pub-left
	ConfSame bool           `json:"confSame"`        // paths and pathDefaults are the same in Old and New
}

// LiveWait is an explicit condition that was awaited on both sides, and whether it came to hold.
type LiveWait struct {
	Name string `json:"name"`
	R    bool   `json:"r"`
	F    bool   `json:"f"`
	// what was seen instead (diagnostics)
	SeenR string `json:"seenR,omitempty"`
	SeenF string `json:"seenF,omitempty"`
}

// LiveResult is the answer to a LiveCase.
type LiveResult struct {
	ID           int               `json:"id"`
	Live         bool              `json:"liveResult"`
	Env          string            `json:"env,omitempty"`
	Failure      string            `json:"failure,omitempty"`
	HarnessError string            `json:"harness_error,omitempty"`
	Cores        int               `json:"cores"`
	Recreated    []string          `json:"recreated,omitempty"` // components of the reload side that are a new instance (or gone)
	PubKept      string            `json:"pubKept,omitempty"`   // kept | dropped | "" (no client at reload time)
	ReaderKept   string            `json:"readerKept,omitempty"`
	Waits        []LiveWait        `json:"waits,omitempty"`
	ObsR         map[string]string `json:"obsR,omitempty"`
	ObsF         map[string]string `json:"obsF,omitempty"`
	Rounds       int               `json:"rounds"`
	Converged    bool              `json:"converged"`
}

// ---- clients ----------------------------------------------------------------------------------------------------

// liveFeeder is a RTSP publisher (ANNOUNCE/SETUP/RECORD through e2elib) that keeps writing H264 IDR frames, 1 s apart
// in media time, and counts them.
type liveFeeder struct {
	c    *e2elib.Client
	sent atomic.Int64
	stop chan struct{}
	done chan struct{}
	once sync.Once
}

func startLiveFeeder(addr string) (*liveFeeder, error) {
	c, rc, medi := e2elib.RTSPPublish(addr, livePath, e2elib.Creds{Anon: true}, e2elib.RTSPOpts{})
	if c.Outcome != e2elib.OutOK {
		c.Close()
		return nil, fmt.Errorf("publisher: %s", c.Err)
	}
	f := &liveFeeder{c: c, stop: make(chan struct{}), done: make(chan struct{})}
	go func() {
		defer close(f.done)
		t := time.NewTicker(20 * time.Millisecond)
		defer t.Stop()
		for n := 0; ; n++ {
			if err := rc.WritePacketRTP(medi, e2elib.IDRPacket(n)); err != nil {
				return
			}
			f.sent.Add(1)
			select {
			case <-f.stop:
				return
			case <-t.C:
			}
		}
	}()
	return f, nil
}

func (f *liveFeeder) Stop() {
	if f == nil {
		return
	}
	f.once.Do(func() {
		close(f.stop)
		<-f.done
		f.c.Close()
	})
}

// liveReader is a RTSP reader (DESCRIBE/SETUP/PLAY) that counts the RTP packets it receives.
type liveReader struct {
	rc   *gortsplib.Client
	recv atomic.Int64
	once sync.Once
}

func startLiveReader(addr string) (*liveReader, error) {
	u, err := base.ParseURL("rtsp://" + addr + "/" + livePath)
	if err != nil {
		return nil, err
	}
	tcp := gortsplib.ProtocolTCP
	r := &liveReader{}
	r.rc = &gortsplib.Client{Scheme: u.Scheme, Host: u.Host, Protocol: &tcp, ReadTimeout: 40 * time.Second, WriteTimeout: 40 * time.Second}
	if err = r.rc.Start(); err != nil {
		return nil, fmt.Errorf("reader start: %w", err)
	}
	desc, _, err := r.rc.Describe(u)
	if err != nil {
		r.rc.Close()
		return nil, fmt.Errorf("reader describe: %w", err)
	}
	if err = r.rc.SetupAll(desc.BaseURL, desc.Medias); err != nil {
		r.rc.Close()
		return nil, fmt.Errorf("reader setup: %w", err)
	}
	r.rc.OnPacketRTPAny(func(*description.Media, format.Format, *rtp.Packet) { r.recv.Add(1) })
	if _, err = r.rc.Play(nil); err != nil {
		r.rc.Close()
		return nil, fmt.Errorf("reader play: %w", err)
	}
	return r, nil
}

func (r *liveReader) Stop() {
	if r != nil {
		r.once.Do(r.rc.Close)
	}
}

// ---- one side ---------------------------------------------------------------------------------------------------

type liveSide struct {
	name   string
	block  int
	dir    string
	p      *core.Core
	api    *e2elib.API
	hc     *http.Client
	cfg    map[string]any // the configuration this side runs (after the reload: New)
	feeder *liveFeeder
	reader *liveReader
	pubID  string // session id of the publisher as the API shows it
	rdID   string
	// recordings listed when the comparison began: a recording is "active" when a segment that is not among them is listed
	rec0     map[string]bool
	frames0  int64
	recvSeen bool
}

var (
	reLPort = regexp.MustCompile(`@L([0-9]+)@`)
)

func (s *liveSide) subst(doc map[string]any) []byte {
	buf, _ := json.Marshal(doc)
	str := reLPort.ReplaceAllStringFunc(string(buf), func(m string) string {
		k, _ := strconv.Atoi(reLPort.FindStringSubmatch(m)[1])
		return strconv.Itoa(s.block + k)
	})
	return []byte(strings.ReplaceAll(str, "@LDIR@", s.dir))
}

func (s *liveSide) addr(k int) string { return fmt.Sprintf("127.0.0.1:%d", s.block+k) }

func (s *liveSide) closeClients() {
	s.reader.Stop()
	s.reader = nil
	s.feeder.Stop()
	s.feeder = nil
}

func (s *liveSide) close() {
	s.closeClients()
	if s.api != nil {
		s.api.Close()
	}
	if s.hc != nil {
		s.hc.CloseIdleConnections()
	}
	if s.p != nil {
		s.p.Close()
		s.p = nil
	}
}

// pathItem returns /v3/paths/get/live as a generic document (nil = no such path).
func (s *liveSide) pathItem() (map[string]any, error) {
	st, buf, err := s.api.Do(http.MethodGet, "/v3/paths/get/"+livePath, nil)
	if err != nil {
		return nil, err
	}
	if st == 404 {
		return nil, nil
	}
	if st != 200 {
		return nil, fmt.Errorf("paths/get: status %d: %s", st, buf)
	}
	var m map[string]any
	return m, json.Unmarshal(buf, &m)
}

func refOf(v any) (typ, id string) {
	m, _ := v.(map[string]any)
	if m == nil {
		return "", ""
	}
	typ, _ = m["type"].(string)
	id, _ = m["id"].(string)
	return
}

func rtspReaders(item map[string]any) []string {
	var ids []string
	rs, _ := item["readers"].([]any)
	for _, r := range rs {
		if t, id := refOf(r); t == "rtspSession" {
			ids = append(ids, id)
		}
	}
	return ids
}

const liveBound = 12 * time.Second // liveness bound of every wait (never a verdict by itself)

// waitCond polls an explicit condition; it returns whether it came to hold and what was last seen.
func waitCond(bound time.Duration, cond func() (bool, string)) (bool, string) {
	deadline := time.Now().Add(bound)
	pause := 2 * time.Millisecond
	for {
		ok, seen := cond()
		if ok {
			return true, seen
		}
		if time.Now().After(deadline) {
			return false, seen
		}
		time.Sleep(pause)
		if pause < 40*time.Millisecond {
			pause *= 2
		}
	}
}

// attachPublisher connects the publisher; the explicit condition is "the API shows the path ready with a RTSP session as source".
func (s *liveSide) attachPublisher() (bool, string) {
	f, err := startLiveFeeder(s.addr(lRTSP))
	if err != nil {
		return false, err.Error()
	}
	s.feeder = f
	return waitCond(liveBound, func() (bool, string) {
		it, err := s.pathItem()
		if err != nil || it == nil {
			return false, fmt.Sprintf("no path item (%v)", err)
		}
		t, id := refOf(it["source"])
		if it["ready"] == true && t == "rtspSession" {
			s.pubID = id
			return true, ""
		}
		return false, fmt.Sprintf("ready=%v source=%q", it["ready"], t)
	})
}

// attachReader connects the reader; the explicit condition is "the API shows one RTSP session among the readers of the path".
func (s *liveSide) attachReader() (bool, string) {
	r, err := startLiveReader(s.addr(lRTSP))
	if err != nil {
		return false, err.Error()
	}
	s.reader = r
	return waitCond(liveBound, func() (bool, string) {
		it, err := s.pathItem()
		if err != nil || it == nil {
			return false, fmt.Sprintf("no path item (%v)", err)
		}
		ids := rtspReaders(it)
		if len(ids) == 1 {
			s.rdID = ids[0]
			return true, ""
		}
		return false, fmt.Sprintf("%d RTSP readers", len(ids))
	})
}

// detachPublisher disconnects the publisher; the explicit condition is "the API shows the path without source, or no path".
func (s *liveSide) detachPublisher() (bool, string) {
	s.feeder.Stop()
	s.feeder = nil
	s.pubID = ""
	return waitCond(liveBound, func() (bool, string) {
		it, err := s.pathItem()
		if err != nil {
			return false, err.Error()
		}
		if it == nil || (it["ready"] == false && it["source"] == nil) {
			return true, ""
		}
		return false, fmt.Sprintf("ready=%v source=%v", it["ready"], it["source"])
	})
}

func (s *liveSide) sessionIDs() (map[string]bool, error) {
	l, err := s.api.List("rtspsessions")
	if err != nil {
		return nil, err
	}
	out := map[string]bool{}
	for _, it := range l {
		out[it.ID] = true
	}
	return out, nil
}

// clientFate waits until the API shows either that the client's session is still attached to the path (kept) or that the
// session does not exist any more (dropped).
func (s *liveSide) clientFate(id string, attached func(item map[string]any) bool) (string, string) {
	fate := ""
	ok, seen := waitCond(liveBound, func() (bool, string) {
		it, err := s.pathItem()
		if err != nil {
			return false, err.Error()
		}
		if it != nil && attached(it) {
			fate = "kept"
			return true, ""
		}
		ids, err := s.sessionIDs()
		if err != nil {
			return false, err.Error()
		}
		if !ids[id] {
			fate = "dropped"
			return true, ""
		}
		return false, "the session exists but is not attached to the path"
	})
	if !ok {
		return "", seen
	}
	return fate, ""
}

// ---- observation ------------------------------------------------------------------------------------------------

func (s *liveSide) httpGet(url string) (int, string, error) {
	res, err := s.hc.Get(url)
	if err != nil {
		return 0, "", err
	}
	defer res.Body.Close()
	buf, err := io.ReadAll(io.LimitReader(res.Body, 4<<20))
	return res.StatusCode, string(buf), err
}

var reMetric = regexp.MustCompile(`^([a-zA-Z_0-9]+)(\{[^}]*\})? (\S+)$`)
var reLabel = regexp.MustCompile(`([a-zA-Z_0-9]+)="((?:[^"\\]|\\.)*)"`)

// volatile metrics: counters of bytes/packets/frames and measurements
func volatileMetric(name string) bool {
	for _, p := range []string{"bytes", "packets", "frames", "jitter"} {
		if strings.Contains(name, p) {
			return true
		}
	}
	return false
}

func isVolatileField(k string) bool {
	lk := strings.ToLower(k)
	return strings.HasSuffix(lk, "time") || strings.Contains(lk, "bytes") || strings.Contains(lk, "frames") ||
		strings.Contains(lk, "packets") || lk == "id" || lk == "created" || lk == "lastrequest"
}

func render(v any) string {
	b, _ := json.Marshal(v)
	return string(b)
}

// observe reads the derived state of the side through its HTTP interfaces and flattens it into "component:field" -> value.
// Identifiers, times and traffic counters are left out; what remains is what is attached to what, and which items exist.
func (s *liveSide) observe() (map[string]string, error) {
	o := map[string]string{}
	// paths
	var pl struct {
		Items []map[string]any `json:"items"`
	}
	if err := s.api.GetJSON("/v3/paths/list?itemsPerPage=1000000", &pl); err != nil {
		return nil, err
	}
	var names []string
	for _, it := range pl.Items {
		n, _ := it["name"].(string)
		names = append(names, n)
		for k, v := range it {
			switch {
			case k == "name" || isVolatileField(k):
			case k == "source":
				t, _ := refOf(v)
				o["paths:"+n+".source"] = t
			case k == "readers":
				var ts []string
				rs, _ := v.([]any)
				for _, r := range rs {
					t, _ := refOf(r)
					ts = append(ts, t)
				}
				sort.Strings(ts)
				o["paths:"+n+".readers"] = strings.Join(ts, ",")
			default:
				o["paths:"+n+"."+k] = render(v)
			}
		}
	}
	sort.Strings(names)
	o["paths:names"] = strings.Join(names, ",")

	// protocol lists: which items exist, in which state, on which path
	for _, kind := range []string{"hlsmuxers", "hlssessions", "rtspconns", "rtspsessions", "rtmpconns"} {
		st, buf, err := s.api.Do(http.MethodGet, "/v3/"+kind+"/list?itemsPerPage=1000000", nil)
		if err != nil {
			return nil, err
		}
		comp := strings.TrimSuffix(strings.TrimSuffix(kind, "conns"), "sessions")
		if kind == "hlsmuxers" {
			comp = "hls"
		}
		if st != 200 {
			o[comp+":"+kind+".status"] = strconv.Itoa(st)
			continue
		}
		o[comp+":"+kind+".status"] = "200"
		var l struct {
			Items []map[string]any `json:"items"`
		}
		if err = json.Unmarshal(buf, &l); err != nil {
			return nil, err
		}
		var items []string
		for _, it := range l.Items {
			var fs []string
			for _, k := range []string{"path", "state", "transport"} {
				if v, ok := it[k]; ok && v != nil {
					fs = append(fs, k+"="+render(v))
				}
			}
			items = append(items, strings.Join(fs, " "))
		}
		sort.Strings(items)
		o[comp+":"+kind] = strings.Join(items, " | ")
	}

	// recordings of the path: active = a segment that was not there when the comparison began is listed
	{
		st, buf, err := s.api.Do(http.MethodGet, "/v3/recordings/get/"+livePath, nil)
		if err != nil {
			return nil, err
		}
		segs := map[string]bool{}
		if st == 200 {
			var rec struct {
				Segments []struct {
					Start string `json:"start"`
				} `json:"segments"`
			}
			if err = json.Unmarshal(buf, &rec); err != nil {
				return nil, err
			}
			for _, sg := range rec.Segments {
				segs[sg.Start] = true
			}
		}
		if s.rec0 == nil {
			s.rec0 = segs
		}
		active := false
		for k := range segs {
			if !s.rec0[k] {
				active = true
			}
		}
		o["record:"+livePath+".writing-segments"] = strconv.FormatBool(active)
	}

	// metrics
	if s.cfg["metrics"] == true {
		st, body, err := s.httpGet("http://" + s.addr(lMetrics) + "/metrics")
		if err != nil {
			return nil, fmt.Errorf("metrics: %w", err)
		}
		o["metrics:status"] = strconv.Itoa(st)
		count := map[string]int{}
		for _, line := range strings.Split(body, "\n") {
			m := reMetric.FindStringSubmatch(strings.TrimSpace(line))
			if m == nil || volatileMetric(m[1]) {
				continue
			}
			var ls []string
			for _, lm := range reLabel.FindAllStringSubmatch(m[2], -1) {
				if lm[1] == "id" || lm[1] == "remoteAddr" {
					continue
				}
				ls = append(ls, lm[1]+"="+lm[2])
			}
			count[m[1]+"{"+strings.Join(ls, ",")+"}="+m[3]]++
		}
		for k, n := range count {
			i := strings.LastIndex(k, "=")
			o["metrics:"+k[:i]] = k[i+1:] + " x" + strconv.Itoa(n)
		}
	} else {
		o["metrics:status"] = "disabled"
	}

	// playback server
	if s.cfg["playback"] == true {
		st, body, err := s.httpGet("http://" + s.addr(lPlayback) + "/list?path=" + livePath)
		if err != nil {
			return nil, fmt.Errorf("playback: %w", err)
		}
		o["playback:list.status"] = strconv.Itoa(st)
		if st == 200 {
			var l []any
			_ = json.Unmarshal([]byte(body), &l)
			o["playback:list.has-spans"] = strconv.FormatBool(len(l) > 0)
		}
	} else {
		o["playback:list.status"] = "disabled"
	}
	return o, nil
}

// recordWanted: the Core's own view of the configuration of the path says that it is recorded.
func (s *liveSide) recordWanted() bool {
	var pc map[string]any
	if err := s.api.GetJSON("/v3/config/paths/get/"+livePath, &pc); err != nil {
		return false
	}
	return pc["record"] == true
}

// waitSegment waits until /v3/recordings/get/live lists a segment.
func (s *liveSide) waitSegment() (bool, string) {
	return waitCond(liveBound, func() (bool, string) {
		st, buf, err := s.api.Do(http.MethodGet, "/v3/recordings/get/"+livePath, nil)
		if err != nil || st != 200 {
			return false, fmt.Sprintf("status %d %v", st, err)
		}
		var rec struct {
			Segments []any `json:"segments"`
		}
		_ = json.Unmarshal(buf, &rec)
		return len(rec.Segments) > 0, string(buf)
	})
}

// settled evaluates the explicit wait conditions of one side on its observation.
func (s *liveSide) settled(o map[string]string, mode string) (map[string]bool, map[string]string) {
	out := map[string]bool{}
	seen := map[string]string{}
	if s.feeder != nil {
		out["publisher:frames-written-since-the-comparison-began"] = s.feeder.sent.Load()-s.frames0 >= 8
		seen["publisher:frames-written-since-the-comparison-began"] = fmt.Sprintf("%d frames", s.feeder.sent.Load()-s.frames0)
		if s.recordWanted() {
			out["record:a-new-segment-is-listed"] = o["record:"+livePath+".writing-segments"] == "true"
		}
	}
	if s.reader != nil {
		out["reader:receives-the-stream"] = s.reader.recv.Load() > 0
	}
	return out, seen
}

// ---- the case ---------------------------------------------------------------------------------------------------

func (w *c13worker) startLive(s *liveSide, doc map[string]any) bool {
	_ = os.MkdirAll(s.dir, 0o755)
	fn := filepath.Join(s.dir, "run.yml")
	if err := os.WriteFile(fn, s.subst(doc), 0o644); err != nil {
		w.lastErr = err.Error()
		return false
	}
	p, ok := c12lib.StartCore(fn, 4)
	if !ok {
		w.lastErr = w.logTail()
		return false
	}
	w.cores++
	s.p = p
	s.cfg = doc
	s.api = e2elib.NewAPI(s.addr(lAPI))
	s.hc = &http.Client{Timeout: 30 * time.Second, Transport: &http.Transport{DisableKeepAlives: true}}
	return true
}

func compPtrs(snap map[string]*compSnap) map[string]uint64 {
	out := map[string]uint64{}
	for n, c := range snap {
		if c.present {
			out[n] = c.ptr
		}
	}
	return out
}

func (w *c13worker) runLive(c *LiveCase) *LiveResult {
	res := &LiveResult{ID: c.ID, Live: true}
	defer func() {
		res.Cores = w.cores
		w.cores = 0
	}()
	R := &liveSide{name: "reload", block: w.liveBlock, dir: filepath.Join(w.dir, fmt.Sprintf("live-%d-r", c.ID))}
	F := &liveSide{name: "fresh", block: w.liveBlock + livePorts, dir: filepath.Join(w.dir, fmt.Sprintf("live-%d-f", c.ID))}
	defer func() {
		R.close()
		F.close()
		os.RemoveAll(R.dir)
		os.RemoveAll(F.dir)
	}()
	wait := func(name string, r, f bool, seenR, seenF string) bool {
		res.Waits = append(res.Waits, LiveWait{Name: name, R: r, F: f, SeenR: seenR, SeenF: seenF})
		return r && f
	}
	startFail := func(which string) *LiveResult {
		msg := "a Core does not start with the " + which + " configuration: " + w.lastErr
		if envFailure(w.lastErr) {
			res.Env = msg
		} else {
			res.HarnessError = msg // every configuration of the table is valid
		}
		return res
	}
	if !w.startLive(R, c.Old) {
		return startFail("old")
	}
	if !w.startLive(F, c.New) {
		return startFail("new")
	}

	// ---- the clients arrive (same history on both sides)
	okR, seenR := R.attachPublisher()
	okF, seenF := F.attachPublisher()
	if !wait("attach:publisher-is-the-source-of-the-path", okR, okF, seenR, seenF) {
		return res
	}
	// a side whose own configuration says that the path is recorded has recorded something before the history goes on
	// (per side, not compared: the two sides run different configurations at this point)
	for _, sd := range []*liveSide{R, F} {
		if sd.recordWanted() {
			if ok, seen := sd.waitSegment(); !ok {
				res.HarnessError = fmt.Sprintf("%s side: the path is published and configured to be recorded, but no recording segment is listed within %v: %s", sd.name, liveBound, seen)
				return res
			}
		}
	}
	switch c.Mode {
	case "pub+reader":
		okR, seenR = R.attachReader()
		okF, seenF = F.attachReader()
		if !wait("attach:reader-is-a-reader-of-the-path", okR, okF, seenR, seenF) {
			return res
		}
	case "pub-left":
		okR, seenR = R.detachPublisher()
		okF, seenF = F.detachPublisher()
		if !wait("attach:publisher-left-the-path", okR, okF, seenR, seenF) {
			return res
		}
	}

	// ---- the reload
	s0, pins := w.snapshot(R.p)
	before := compPtrs(s0)
	switch c.Route {
	case "api":
		st, body, err := R.api.Do(http.MethodPatch, "/v3/config/global/patch", c.Patch)
		if err != nil || st != 200 {
			res.Failure = fmt.Sprintf("PATCH /v3/config/global/patch %s: status %d %s %v", render(c.Patch), st, body, err)
			return res
		}
	default:
		fn := filepath.Join(R.dir, "new.yml")
		if err := os.WriteFile(fn, R.subst(c.New), 0o644); err != nil {
			res.HarnessError = err.Error()
			return res
		}
		if err := core.VerifC13ReloadFromFile(R.p, fn); err != nil {
			res.Failure = "reload failed: " + err.Error()
			return res.envCheck()
		}
	}
	if !barrier(R.p) {
		res.Failure = "the Core terminated during the reload: " + w.logTail()
		return res.envCheck()
	}
	R.cfg = c.New
	R.api.Close() // the API server may be a new one: drop the connections to the old one
	s1, _ := w.snapshot(R.p)
	after := compPtrs(s1)
	for n, ptr := range before {
		if after[n] != ptr {
			res.Recreated = append(res.Recreated, n)
		}
	}
	sort.Strings(res.Recreated)
	runtime.KeepAlive(pins)

	// ---- which clients did the server keep? those it dropped connect again
	if R.feeder != nil {
		id := R.pubID
		fate, seen := R.clientFate(id, func(it map[string]any) bool { _, sid := refOf(it["source"]); return sid == id })
		if fate == "" {
			res.HarnessError = "publisher after the reload: neither attached nor gone: " + seen
			return res
		}
		res.PubKept = fate
	}
	if R.reader != nil {
		id := R.rdID
		fate, seen := R.clientFate(id, func(it map[string]any) bool {
			for _, r := range rtspReaders(it) {
				if r == id {
					return true
				}
			}
			return false
		})
		if fate == "" {
			res.HarnessError = "reader after the reload: neither attached nor gone: " + seen
			return res
		}
		res.ReaderKept = fate
	}
	if res.PubKept == "dropped" {
		R.feeder.Stop()
		okR, seenR = R.attachPublisher()
		if !wait("reattach:publisher-is-the-source-of-the-path", okR, true, seenR, "") {
			return res
		}
	}
	if res.ReaderKept == "dropped" {
		R.reader.Stop()
		okR, seenR = R.attachReader()
		if !wait("reattach:reader-is-a-reader-of-the-path", okR, true, seenR, "") {
			return res
		}
	}

	// ---- joint observation in rounds
	for _, s := range []*liveSide{R, F} {
		if s.feeder != nil {
			s.frames0 = s.feeder.sent.Load()
		}
	}
	deadline := time.Now().Add(liveBound)
	pause := 5 * time.Millisecond
	var oR, oF map[string]string
	var cR, cF map[string]bool
	var snR, snF map[string]string
	var lastErr error
	for {
		res.Rounds++
		var errR, errF error
		oR, errR = R.observe()
		oF, errF = F.observe()
		if errR == nil && errF == nil {
			cR, snR = R.settled(oR, c.Mode)
			cF, snF = F.settled(oF, c.Mode)
			all := len(cR) == len(cF)
			for k, v := range cR {
				all = all && v && cF[k]
			}
			for _, v := range cF {
				all = all && v
			}
			if all && render(oR) == render(oF) {
				res.Converged = true
				break
			}
		} else {
			lastErr = errR
			if lastErr == nil {
				lastErr = errF
			}
		}
		if time.Now().After(deadline) {
			break
		}
		time.Sleep(pause)
		if pause < 50*time.Millisecond {
			pause *= 2
		}
	}
	if oR == nil || oF == nil {
		res.HarnessError = fmt.Sprintf("the HTTP interfaces could not be read: %v", lastErr)
		return res
	}
	names := map[string]bool{}
	for k := range cR {
		names[k] = true
	}
	for k := range cF {
		names[k] = true
	}
	var ks []string
	for k := range names {
		ks = append(ks, k)
	}
	sort.Strings(ks)
	for _, k := range ks {
		vr, inR := cR[k]
		vf, inF := cF[k]
		// a condition that applies to one side only (e.g. the Core's own configuration says "record" on one side)
		// counts as not fulfilled on the other
		sr, sf := snR[k], snF[k]
		if !inR {
			sr = "the condition does not apply on this side"
		}
		if !inF {
			sf = "the condition does not apply on this side"
		}
		wait("settle:"+k, vr && inR, vf && inF, sr, sf)
	}
	// ---- one active probe at the end (it creates state of its own, so nothing is observed after it): a HLS client asks for
	// the playlist of the path on both sides
	if res.Converged {
		var wg sync.WaitGroup
		for _, sd := range []struct {
			s *liveSide
			o map[string]string
		}{{R, oR}, {F, oF}} {
			if sd.s.cfg["hls"] != true {
				sd.o["hls:index.m3u8"] = "disabled"
				continue
			}
			wg.Add(1)
			go func() {
				defer wg.Done()
				hcl := e2elib.HLSGet(sd.s.addr(lHLS), livePath, e2elib.Creds{Anon: true}, "basic")
				v := hcl.Outcome
				if m := reStatus.FindString(hcl.Err); m != "" {
					v += " " + m
				} else if hcl.Err != "" {
					v += " " + hcl.Err
				}
				sd.o["hls:index.m3u8"] = v
				hcl.Close()
			}()
		}
		wg.Wait()
	}
	res.ObsR, res.ObsF = oR, oF
	return res
}

var reStatus = regexp.MustCompile(`status [0-9]+`)

func (res *LiveResult) envCheck() *LiveResult {
	if strings.Contains(res.Failure, "inotify") || strings.Contains(res.Failure, "too many open files") ||
		strings.Contains(res.Failure, "address already in use") {
		res.Env, res.Failure = res.Failure, ""
	}
	return res
}
