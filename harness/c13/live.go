package main

// C13, "live state" family: components that derive state from what is live at the moment they are created.
//
// The main family of this harness compares constructor arguments and references of the components; no stream exists
// while it runs, so state that a component DERIVES at creation from the running system (the HLS server asks the path
// manager which paths are ready, the metrics server is told which servers exist, a path starts its recorder when its
// configuration says so and a stream is there, ...) is never compared. This family does that, with real clients:
//
//   a small table of (old, new) configuration pairs that create, remove, recreate or reconfigure such a component
//   x {publisher connected before the reload, publisher and reader, publisher came and left before the reload}
//   x {reload through the file branch, reload through PATCH /v3/config/global/patch where the change is global}.
//
// Oracle (differential, no expectation is written down anywhere): the state that the HTTP interfaces show after the
// reload (paths with ready/source/readers/tracks, HLS muxers, RTSP/RTMP/HLS lists, recording activity, metrics gauges,
// playback list) equals that of a FRESH Core started with `new` that saw the same clients. Both Cores are alive at the
// same time and are observed in rounds until they agree and every explicit wait condition holds on both; a condition
// that comes to hold on one side only, or a field that still differs when the liveness bound expires, is a violation
// `live-state-differs:<component>:<field>`. A condition that holds on neither side is a harness error.
// Where the reload keeps the RTSP server, the path manager and the configuration of the path, the clients must still
// be attached afterwards (`live-client-dropped`); where the server dropped them they connect again before the comparison.

import (
	"encoding/json"
	"fmt"
	"os"
	"sort"
	"strings"
	"time"

	"github.com/bluenviron/mediamtx/internal/zzverif/c12lib"
	"github.com/bluenviron/mediamtx/internal/zzverif/vcommon"
)

func lport(k int) string { return fmt.Sprintf("127.0.0.1:@L%d@", k) }

// liveBase: API, RTSP (TCP), HLS and RTMP on loopback, everything else off, one static path.
func liveBase() map[string]any {
	return map[string]any{
		"logLevel": "info", "logDestinations": []any{"stdout"},
		"readTimeout": "20s", "writeTimeout": "20s",
		"api": true, "apiAddress": lport(lAPI),
		"metrics": false, "metricsAddress": lport(lMetrics),
		"pprof":    false,
		"playback": false, "playbackAddress": lport(lPlayback),
		"rtsp": true, "rtspAddress": lport(lRTSP), "rtspTransports": []any{"tcp"},
		"hls": true, "hlsAddress": lport(lHLS), "hlsAlwaysRemux": false,
		"hlsVariant": "mpegts", "hlsSegmentDuration": "1s", "hlsSegmentCount": 3,
		"rtmp": true, "rtmpAddress": lport(lRTMP),
		"webrtc": false, "srt": false, "moq": false,
		"pathDefaults": map[string]any{
			"recordPath":            "@LDIR@/rec/%path/%Y-%m-%d_%H-%M-%S-%f",
			"recordSegmentDuration": "1s", "recordPartDuration": "100ms",
		},
		"paths": map[string]any{livePath: map[string]any{}},
	}
}

type kv = map[string]any

// lconf = liveBase with top-level keys overlaid ("paths" replaces the paths, "pathDefaults" is merged).
func lconf(mods ...kv) map[string]any {
	buf, _ := json.Marshal(liveBase())
	var out map[string]any
	_ = json.Unmarshal(buf, &out)
	for _, m := range mods {
		mb, _ := json.Marshal(m)
		var mm map[string]any
		_ = json.Unmarshal(mb, &mm)
		for k, v := range mm {
			if k == "pathDefaults" {
				pd := out["pathDefaults"].(map[string]any)
				for k2, v2 := range v.(map[string]any) {
					pd[k2] = v2
				}
				continue
			}
			out[k] = v
		}
	}
	return out
}

type livePair struct {
	name     string
	old, new map[string]any
}

// livePairs is the table. Every pair keeps the API and the RTSP listener where they are (the harness observes through
// the first and publishes through the second) and keeps a configuration for the path "live".
func livePairs() []livePair {
	remux := kv{"hlsAlwaysRemux": true}
	metrics := kv{"metrics": true}
	rec := kv{"paths": kv{livePath: kv{"record": true}}}
	return []livePair{
		// the HLS server appears, disappears, is recreated by one of its parameters
		{"hls-appears(alwaysRemux)", lconf(kv{"hls": false}), lconf(remux)},
		{"hls-appears", lconf(kv{"hls": false}), lconf()},
		{"hls-disappears(alwaysRemux)", lconf(remux), lconf(remux, kv{"hls": false})},
		{"hlsAlwaysRemux-on", lconf(), lconf(remux)},
		{"hlsAlwaysRemux-off", lconf(remux), lconf()},
		{"hls-recreated(hlsSegmentCount,alwaysRemux)", lconf(remux), lconf(remux, kv{"hlsSegmentCount": 5})},
		{"hls-recreated(hlsVariant,alwaysRemux)", lconf(remux), lconf(remux, kv{"hlsVariant": "fmp4"})},
		// the path manager (and with it every server) is recreated by one of its parameters
		{"pathManager-recreated(writeQueueSize)", lconf(remux), lconf(remux, kv{"writeQueueSize": 1024})},
		{"logger-recreated(logLevel)", lconf(remux), lconf(remux, kv{"logLevel": "debug"})},
		// metrics appear, disappear, are recreated; the HLS server appears beside running metrics
		{"metrics-appear", lconf(remux), lconf(remux, metrics)},
		{"metrics-disappear", lconf(remux, metrics), lconf(remux)},
		{"metrics-recreated(metricsAllowOrigins)", lconf(remux, metrics), lconf(remux, metrics, kv{"metricsAllowOrigins": []any{"http://a.example"}})},
		{"hls-appears(alwaysRemux)-beside-metrics", lconf(metrics, kv{"hls": false}), lconf(metrics, remux)},
		// only the API, only another protocol server
		{"api-recreated(apiAllowOrigins)", lconf(remux), lconf(remux, kv{"apiAllowOrigins": []any{"http://a.example"}})},
		{"rtmp-disappears", lconf(remux), lconf(remux, kv{"rtmp": false})},
		// recording of a path that is being published; the playback server appears
		{"record-on", lconf(remux), lconf(remux, rec)},
		{"record-off", lconf(remux, rec), lconf(remux)},
		{"record-reconfigured(recordFormat)", lconf(rec), lconf(kv{"paths": kv{livePath: kv{"record": true, "recordFormat": "mpegts"}}})},
		{"playback-appears", lconf(rec), lconf(rec, kv{"playback": true})},
		// the configuration of the path changes in a way that is not reloadable in place; other paths come and go;
		// the path moves between a configuration of its own and the catch-all one
		{"path-recreated(maxReaders)", lconf(remux), lconf(remux, kv{"paths": kv{livePath: kv{"maxReaders": 5}}})},
		{"path-added(p2)", lconf(remux), lconf(remux, kv{"paths": kv{livePath: kv{}, "p2": kv{}}})},
		{"path-conf-appears(all_others->live)", lconf(remux, kv{"paths": kv{"all_others": kv{}}}), lconf(remux, kv{"paths": kv{"all_others": kv{}, livePath: kv{}}})},
		{"path-conf-disappears(live->all_others)", lconf(remux, kv{"paths": kv{"all_others": kv{}, livePath: kv{}}}), lconf(remux, kv{"paths": kv{"all_others": kv{}}})},
	}
}

var liveModes = []string{"pub", "pub+reader", "pub-left"}

type liveInfo struct {
	c     *LiveCase
	label string
}

func liveCases() []*liveInfo {
	var out []*liveInfo
	j := func(v any) string { b, _ := json.Marshal(v); return string(b) }
	for _, p := range livePairs() {
		same := j(p.old["paths"]) == j(p.new["paths"]) && j(p.old["pathDefaults"]) == j(p.new["pathDefaults"])
		patch := map[string]any{}
		for k, v := range p.new {
			if k != "paths" && k != "pathDefaults" && j(p.old[k]) != j(v) {
				patch[k] = v
			}
		}
		routes := []string{"file"}
		if same && len(patch) > 0 {
			routes = append(routes, "api")
		}
		for _, route := range routes {
			for _, mode := range liveModes {
				c := &LiveCase{ID: 100000 + len(out), Pair: p.name, Old: p.old, New: p.new, Route: route, Mode: mode, ConfSame: same}
				if route == "api" {
					c.Patch = patch
				}
				out = append(out, &liveInfo{c: c, label: fmt.Sprintf("live %s [%s] via %s", p.name, mode, route)})
			}
		}
	}
	return out
}

type liveFinding struct {
	key, what string
	li        *liveInfo
}

func liveComponent(field string) (string, string) {
	i := strings.Index(field, ":")
	if i < 0 {
		return "state", field
	}
	return field[:i], strings.NewReplacer(" ", "", "\"", "").Replace(field[i+1:])
}

// judgeLive turns the answer to one case into findings and harness problems.
func judgeLive(li *liveInfo, lr *LiveResult) (fs []liveFinding, harness []string) {
	if lr.Failure != "" {
		return []liveFinding{{"live-reload-failed:" + li.c.Pair, fmt.Sprintf("%s: %s", li.label, lr.Failure), li}}, nil
	}
	diffs := 0
	for _, w := range lr.Waits {
		name := strings.TrimPrefix(w.Name, "settle:")
		switch {
		case w.R && w.F:
		case !w.R && !w.F:
			harness = append(harness, fmt.Sprintf("%s: the condition %q came to hold on neither side within %v (reload side: %s; fresh side: %s)",
				li.label, w.Name, liveBound, w.SeenR, w.SeenF))
		default:
			comp, field := liveComponent(name)
			side, seen := "after the reload", w.SeenR
			other := "in a fresh Core started with the new configuration"
			if w.R {
				side, seen, other = "in a fresh Core started with the new configuration", w.SeenF, "after the reload"
			}
			diffs++
			fs = append(fs, liveFinding{fmt.Sprintf("live-state-differs:%s:%s", comp, field),
				fmt.Sprintf("%s: the condition %q never came to hold %s (%s) but holds %s", li.label, w.Name, side, seen, other), li})
		}
	}
	var keys []string
	seen := map[string]bool{}
	for k := range lr.ObsR {
		keys = append(keys, k)
		seen[k] = true
	}
	for k := range lr.ObsF {
		if !seen[k] {
			keys = append(keys, k)
		}
	}
	sort.Strings(keys)
	// a path that exists on one side only is one difference (not one per field of the path)
	split := func(v string) map[string]bool {
		m := map[string]bool{}
		for _, n := range strings.Split(v, ",") {
			if n != "" {
				m[n] = true
			}
		}
		return m
	}
	pathsR, pathsF := split(lr.ObsR["paths:names"]), split(lr.ObsF["paths:names"])
	oneSided := func(k string) bool {
		if !strings.HasPrefix(k, "paths:") || k == "paths:names" {
			return false
		}
		n := strings.TrimPrefix(k, "paths:")
		if i := strings.LastIndex(n, "."); i >= 0 {
			n = n[:i]
		}
		return pathsR[n] != pathsF[n]
	}
	for _, k := range keys {
		a, inA := lr.ObsR[k]
		b, inB := lr.ObsF[k]
		if (a == b && inA == inB) || oneSided(k) {
			continue
		}
		if !inA {
			a = "<absent>"
		}
		if !inB {
			b = "<absent>"
		}
		comp, field := liveComponent(k)
		diffs++
		if k == "paths:names" {
			// the class of the difference: which side has the extra path, and whether that path is in use
			for _, side := range []struct {
				has, lacks map[string]bool
				obs        map[string]string
				what       string
			}{{pathsR, pathsF, lr.ObsR, "only-after-the-reload"}, {pathsF, pathsR, lr.ObsF, "only-in-the-fresh-core"}} {
				var ns []string
				for n := range side.has {
					if !side.lacks[n] {
						ns = append(ns, n)
					}
				}
				sort.Strings(ns)
				for _, n := range ns {
					use := "in-use"
					if side.obs["paths:"+n+".source"] == "" && side.obs["paths:"+n+".readers"] == "" {
						use = "idle"
					}
					fs = append(fs, liveFinding{fmt.Sprintf("live-state-differs:paths:names:%s-path-%s(confName=%s)", use, side.what,
						strings.Trim(side.obs["paths:"+n+".confName"], "\"")),
						fmt.Sprintf("%s: /v3/paths/list shows the paths {%s} after the reload and {%s} in a fresh Core started with the new configuration that saw the same clients: "+
							"path %q (confName %s, ready %s, source %q, readers %q) exists %s (observed for %v in %d rounds)", li.label, lr.ObsR[k], lr.ObsF[k],
							n, side.obs["paths:"+n+".confName"], side.obs["paths:"+n+".ready"], side.obs["paths:"+n+".source"], side.obs["paths:"+n+".readers"],
							strings.ReplaceAll(side.what, "-", " "), liveBound, lr.Rounds), li})
				}
			}
			continue
		}
		fs = append(fs, liveFinding{fmt.Sprintf("live-state-differs:%s:%s", comp, field),
			fmt.Sprintf("%s: %s is %s after the reload (clients that the server dropped have connected again; observed for %v in %d rounds), "+
				"a fresh Core started with the new configuration and the same clients has %s", li.label, k, a, liveBound, lr.Rounds, b), li})
	}
	if lr.ObsR != nil && !lr.Converged && diffs == 0 && len(harness) == 0 {
		harness = append(harness, li.label+": the two sides were not observed as settled and equal, yet no difference is left")
	}
	// the clients of components that keep running stay connected
	if li.c.ConfSame && !contains(lr.Recreated, "rtspServer") && !contains(lr.Recreated, "pathManager") {
		if lr.PubKept == "dropped" {
			fs = append(fs, liveFinding{"live-client-dropped:publisher:" + li.c.Pair,
				fmt.Sprintf("%s: the RTSP server, the path manager and the configuration of the path are kept by the reload (recreated: %v), yet the publisher was disconnected", li.label, lr.Recreated), li})
		}
		if lr.ReaderKept == "dropped" {
			fs = append(fs, liveFinding{"live-client-dropped:reader:" + li.c.Pair,
				fmt.Sprintf("%s: the RTSP server, the path manager and the configuration of the path are kept by the reload (recreated: %v), yet the reader was disconnected", li.label, lr.Recreated), li})
		}
	}
	return fs, harness
}

func contains(l []string, s string) bool {
	for _, x := range l {
		if x == s {
			return true
		}
	}
	return false
}

func findingKeys(fs []liveFinding) string {
	var ks []string
	for _, f := range fs {
		ks = append(ks, f.key)
	}
	sort.Strings(ks)
	return strings.Join(ks, " ")
}

// runLiveFamily executes the whole table and returns the findings. fail reports a harness error.
func runLiveFamily(r *vcommon.Run, pool *c12lib.Pool, only string, fail func(string, ...any)) []liveFinding {
	t0 := time.Now()
	cases := liveCases()
	if only != "" {
		var f []*liveInfo
		for _, li := range cases {
			if strings.Contains(li.label, only) {
				f = append(f, li)
			}
		}
		cases = f
	}
	run := func(list []*liveInfo) []*LiveResult {
		jobs := make([]any, len(list))
		for i, li := range list {
			jobs[i] = li.c
		}
		out := make([]*LiveResult, len(list))
		exec1 := func(idx []int) {
			js := make([]any, len(idx))
			for k, i := range idx {
				js[k] = jobs[i]
			}
			for k, pr := range pool.Run(js) {
				lr := &LiveResult{}
				if pr.Crash != "" {
					lr.Failure = "the process died: " + lastChars(pr.Crash, 2500)
					lr.Env = "" // decided below
					lr.HarnessError = ""
					lr.Live = false // marks a death
				} else if err := json.Unmarshal(pr.Raw, lr); err != nil {
					fail("bad worker answer: %v", err)
				}
				out[idx[k]] = lr
			}
		}
		all := make([]int, len(list))
		for i := range all {
			all[i] = i
		}
		exec1(all)
		// a death or a Core start refused by the machine: the case is run again (a death must reproduce to count)
		for round := 0; round < 4; round++ {
			var again []int
			for i, lr := range out {
				if lr.Env != "" || (!lr.Live && round < 2) {
					again = append(again, i)
				}
			}
			if len(again) == 0 {
				break
			}
			time.Sleep(time.Duration(300*(round+1)) * time.Millisecond)
			exec1(again)
		}
		for i, lr := range out {
			if lr.Env != "" {
				fail("case %s: %s (5 attempts)", list[i].label, lr.Env)
			}
			if lr.HarnessError != "" {
				fail("case %s: %s", list[i].label, lr.HarnessError)
			}
		}
		return out
	}
	results := run(cases)
	var findings []liveFinding
	var harness []string
	perCase := map[int][]liveFinding{}
	cores, maxRounds := 0, 0
	classes := map[string]bool{}
	for i, lr := range results {
		r.Eval(1)
		cores += lr.Cores
		maxRounds = max(maxRounds, lr.Rounds)
		if *flagLiveDump {
			b, _ := json.Marshal(lr)
			fmt.Fprintf(os.Stderr, "LIVE %s: %s\n", cases[i].label, b)
		}
		fs, hs := judgeLive(cases[i], lr)
		findings = append(findings, fs...)
		harness = append(harness, hs...)
		perCase[cases[i].c.ID] = fs
		cl := fmt.Sprintf("live [%s] recreated{%s} publisher=%s reader=%s muxers{%s} recording=%s metrics=%s readers{%s}", cases[i].c.Mode,
			strings.Join(lr.Recreated, ","), lr.PubKept, lr.ReaderKept, lr.ObsF["hls:hlsmuxers"], lr.ObsF["record:"+livePath+".writing-segments"],
			lr.ObsF["metrics:status"], lr.ObsF["paths:"+livePath+".readers"])
		classes[cl] = true
		r.Distinct(cl)
	}
	if len(harness) > 0 {
		fail("live-state family: %s", strings.Join(harness, "\n"))
	}
	// every finding is executed twice more and must reproduce with the same keys
	var again []*liveInfo
	seen := map[int]bool{}
	for _, f := range findings {
		if !seen[f.li.c.ID] && len(again) < 60 {
			seen[f.li.c.ID] = true
			again = append(again, f.li, f.li)
		}
	}
	if len(again) > 0 {
		for i, lr := range run(again) {
			fs, hs := judgeLive(again[i], lr)
			if len(hs) > 0 {
				fail("live-state family, re-execution: %s", strings.Join(hs, "\n"))
			}
			if a, b := findingKeys(perCase[again[i].c.ID]), findingKeys(fs); a != b {
				fail("nondeterministic: re-execution of %s gave other findings: {%s} then {%s}", again[i].label, a, b)
			}
		}
	}
	r.Set("live_cases", len(cases))
	r.Set("live_pairs", len(livePairs()))
	r.Set("live_modes", liveModes)
	r.Set("live_cores", cores)
	r.Set("live_classes", len(classes))
	r.Set("live_max_rounds", maxRounds)
	r.Set("live_seconds", int(time.Since(t0).Seconds()+0.5))
	if len(classes) < 6 && only == "" {
		fail("vacuous: only %d distinct classes in the live-state family", len(classes))
	}
	return findings
}
