package main

import (
	"crypto/sha1"
	"encoding/hex"
	"encoding/json"
	"fmt"
	"os"
	"path/filepath"
	"regexp"
	"runtime"
	"sort"
	"strconv"
	"strings"
	"time"

	"github.com/bluenviron/mediamtx/internal/conf"
	"github.com/bluenviron/mediamtx/internal/core"
	"github.com/bluenviron/mediamtx/internal/test"
	"github.com/bluenviron/mediamtx/internal/zzverif/c12lib"
)

// Case: start a Core with Old, bring it to New by a reload (through the API entry points of Core, or through the
// "configuration file changed" branch), observe every component, and observe a fresh Core started with New.
type Case struct {
	ID     int            `json:"id"`
	Old    map[string]any `json:"old"`
	New    map[string]any `json:"new"`
	Steps  []Delta        `json:"steps"` // the changes that lead from Old to New, applied in order
	Route  string         `json:"route"` // api | file
	OldHas []string       `json:"oldHas"` // names of the paths of Old (add vs replace)
}

// CompObs is what the worker reports about one component.
type CompObs struct {
	Name  string `json:"n"`
	Order int    `json:"o"` // position of the field in core.Core = creation order
	P0   bool   `json:"p0"` // present before the reload
	P1   bool   `json:"p1"` // present after the reload
	PF   bool   `json:"pf"` // present in a fresh Core started with New
	Same bool   `json:"same"` // same instance before and after
	Sig0 string `json:"s0,omitempty"`
	Sig1 string `json:"s1,omitempty"`
	SigF string `json:"sf,omitempty"`
	// Refs0: the components this component referred to before the reload
	Refs0 []string `json:"r0,omitempty"`
	// Diff: fields / references whose value after the reload differs from the fresh Core: "field: got -> want"
	Diff map[string][2]string `json:"diff,omitempty"`
	// Stale: reference fields that point to a component instance that is not alive any more
	Stale []string `json:"stale,omitempty"`
	// ChangedF0F1: fields that differ between a fresh Old and a fresh New (the parameters of this component that changed)
	Changed []string `json:"chg,omitempty"`
}

// CaseResult is the answer to a Case.
type CaseResult struct {
	ID           int       `json:"id"`
	Skip         string    `json:"skip,omitempty"`    // the case is not a pair of valid configurations
	Env          string    `json:"env,omitempty"`     // the machine refused a Core start (shared limits): run the case again
	Failure      string    `json:"failure,omitempty"` // reload failed / Core terminated
	Comps        []CompObs `json:"comps,omitempty"`
	Cores        int       `json:"cores"`
	HarnessError string    `json:"harness_error,omitempty"`
}

type c13worker struct {
	idx   int
	dir   string
	block int
	liveBlock int // first port of the two blocks of the live-state family (liveworker.go)
	cores int
	lastErr string
	fresh map[string]map[string]*compSnap // configuration text -> snapshot of a fresh Core
}

type compSnap struct {
	present bool
	order   int
	ptr     uint64
	fields  map[string]string
	refs    map[string]string
	sig     string
}

// subst replaces the port placeholders by the worker's ports.
var (
	reIPort = regexp.MustCompile(`"@I([0-9]+)@"`)
	reAPort = regexp.MustCompile(`@A([0-9]+)@`)
)

func (w *c13worker) subst(doc map[string]any) []byte {
	buf, _ := json.Marshal(doc)
	s := reIPort.ReplaceAllStringFunc(string(buf), func(m string) string {
		k, _ := strconv.Atoi(reIPort.FindStringSubmatch(m)[1])
		return strconv.Itoa(w.block + k)
	})
	s = reAPort.ReplaceAllStringFunc(s, func(m string) string {
		k, _ := strconv.Atoi(reAPort.FindStringSubmatch(m)[1])
		return strconv.Itoa(w.block + k)
	})
	return []byte(s)
}

// unport hides the worker's ports and directory in an observed value.
var reNum = regexp.MustCompile(`[0-9]{5}`)

func (w *c13worker) unport(s string) string {
	s = strings.ReplaceAll(s, w.dir, "@DIR@")
	return reNum.ReplaceAllStringFunc(s, func(m string) string {
		n, _ := strconv.Atoi(m)
		if n >= w.block && n < w.block+portBlock {
			return "@" + strconv.Itoa(n-w.block) + "@"
		}
		return m
	})
}

func (w *c13worker) snapshot(p *core.Core) (map[string]*compSnap, []any) {
	core.VerifC13Quiesce(p)
	raw, pins := core.VerifC13Snapshot(p)
	out := map[string]*compSnap{}
	for i, c := range raw {
		cs := &compSnap{present: c.Present, order: i, ptr: c.Ptr, fields: map[string]string{}, refs: c.Refs}
		var keys []string
		for k, v := range c.Fields {
			v = w.unport(v)
			cs.fields[k] = v
			keys = append(keys, "F "+k+"="+v)
		}
		for k, v := range c.Refs {
			keys = append(keys, "R "+k+"="+v)
		}
		sort.Strings(keys)
		h := sha1.Sum([]byte(strings.Join(keys, "\n")))
		cs.sig = hex.EncodeToString(h[:8])
		out[c.Name] = cs
	}
	return out, pins
}

func (w *c13worker) start(cfg []byte, tries int) (*core.Core, bool) {
	fn := filepath.Join(w.dir, "run.yml")
	if err := os.WriteFile(fn, cfg, 0o644); err != nil {
		return nil, false
	}
	p, ok := c12lib.StartCore(fn, tries)
	if ok {
		w.cores++
		return p, true
	}
	w.lastErr = w.logTail()
	return nil, false
}

// logTail returns the last error lines of this worker's log (the Core logs to stdout).
func (w *c13worker) logTail() string {
	f, err := os.Open(filepath.Join(filepath.Dir(w.dir), fmt.Sprintf("worker-%d.log", w.idx)))
	if err != nil {
		return ""
	}
	defer f.Close()
	st, _ := f.Stat()
	off := st.Size() - 64<<10
	if off < 0 {
		off = 0
	}
	buf := make([]byte, st.Size()-off)
	_, _ = f.ReadAt(buf, off)
	lines := strings.Split(strings.TrimSpace(string(buf)), "\n")
	var out []string
	for i := len(lines) - 1; i >= 0 && len(out) < 3; i-- {
		if strings.Contains(lines[i], "ERR") {
			out = append(out, lines[i])
		}
	}
	return strings.Join(out, " / ")
}

func barrier(p *core.Core) bool {
	err := p.APIConfigPathsDelete("\x00verif-barrier")
	return !(err != nil && err.Error() == "terminated")
}

func (w *c13worker) freshSnap(cfg []byte) (map[string]*compSnap, bool) {
	if s, ok := w.fresh[string(cfg)]; ok {
		return s, s != nil
	}
	if len(w.fresh) > 400 {
		w.fresh = map[string]map[string]*compSnap{}
	}
	p, ok := w.start(cfg, 3)
	if !ok {
		if !envFailure(w.lastErr) {
			w.fresh[string(cfg)] = nil
		}
		return nil, false
	}
	s, _ := w.snapshot(p)
	p.Close()
	w.fresh[string(cfg)] = s
	return s, true
}

// envCheck turns a failure caused by the machine (limits shared with other processes) into a request to run the
// case again.
func (res *CaseResult) envCheck(w *c13worker) *CaseResult {
	if strings.Contains(res.Failure, "inotify") || strings.Contains(res.Failure, "too many open files") ||
		strings.Contains(res.Failure, "address already in use") {
		res.Env, res.Failure = res.Failure, ""
	}
	return res
}

// envFailure recognises start failures caused by the machine, not by the configuration.
func envFailure(msg string) bool {
	return strings.Contains(msg, "inotify") || strings.Contains(msg, "too many open files") ||
		strings.Contains(msg, "address already in use") || msg == ""
}

func optGlobal(m map[string]any, w *c13worker) (conf.OptionalGlobal, error) {
	var og conf.OptionalGlobal
	err := json.Unmarshal(w.subst(m), &og)
	return og, err
}

func optPath(m map[string]any, w *c13worker) (conf.OptionalPath, error) {
	var op conf.OptionalPath
	err := json.Unmarshal(w.subst(m), &op)
	return op, err
}

// applyAPI performs the change through the API entry points of Core (what the HTTP handlers call).
func (w *c13worker) applyAPI(p *core.Core, steps []Delta, has map[string]bool) error {
	for _, d := range steps {
		if len(d.Global) > 0 {
			og, err := optGlobal(d.Global, w)
			if err != nil {
				return fmt.Errorf("decode: %w", err)
			}
			if err = p.APIConfigGlobalPatch(og); err != nil {
				return err
			}
		}
		if len(d.Defaults) > 0 {
			op, err := optPath(d.Defaults, w)
			if err != nil {
				return fmt.Errorf("decode: %w", err)
			}
			if err = p.APIConfigPathDefaultsPatch(op); err != nil {
				return err
			}
		}
		var names []string
		for n := range d.Paths {
			names = append(names, n)
		}
		sort.Strings(names)
		for _, n := range names {
			f := d.Paths[n]
			var err error
			switch {
			case f == nil:
				err = p.APIConfigPathsDelete(n)
				delete(has, n)
			default:
				var op conf.OptionalPath
				op, err = optPath(f.(map[string]any), w)
				if err != nil {
					return fmt.Errorf("decode: %w", err)
				}
				if has[n] {
					err = p.APIConfigPathsReplace(n, op)
				} else {
					err = p.APIConfigPathsAdd(n, op)
					has[n] = true
				}
			}
			if err != nil {
				return err
			}
		}
	}
	return nil
}

func refTargets(refs map[string]string) []string {
	seen := map[string]bool{}
	var out []string
	for _, t := range refs {
		if t != "nil" && t != "core" && !strings.HasPrefix(t, "STALE") && !seen[t] {
			seen[t] = true
			out = append(out, t)
		}
	}
	sort.Strings(out)
	return out
}

func (w *c13worker) run(c *Case) *CaseResult {
	res := &CaseResult{ID: c.ID}
	defer func() {
		res.Cores = w.cores
		w.cores = 0
	}()
	oldCfg := w.subst(c.Old)
	newCfg := w.subst(c.New)

	// both configurations must be startable on their own
	f1, ok := w.freshSnap(newCfg)
	if !ok {
		res.Skip = "a fresh Core does not start with the new configuration: " + w.lastErr
		if envFailure(w.lastErr) {
			res.Env, res.Skip = res.Skip, ""
		}
		return res
	}
	p, ok := w.start(oldCfg, 6)
	if !ok {
		res.Skip = "a fresh Core does not start with the old configuration: " + w.lastErr
		if envFailure(w.lastErr) {
			res.Env, res.Skip = res.Skip, ""
		}
		return res
	}
	s0, pins := w.snapshot(p)
	w.fresh[string(oldCfg)] = s0

	switch c.Route {
	case "api":
		has := map[string]bool{}
		for _, n := range c.OldHas {
			has[n] = true
		}
		if err := w.applyAPI(p, c.Steps, has); err != nil {
			p.Close()
			res.Failure = "the edit was rejected: " + err.Error()
			return res.envCheck(w)
		}
	case "file":
		fn := filepath.Join(w.dir, "new.yml")
		if err := os.WriteFile(fn, newCfg, 0o644); err != nil {
			p.Close()
			res.HarnessError = err.Error()
			return res
		}
		if err := core.VerifC13ReloadFromFile(p, fn); err != nil {
			p.Close()
			res.Failure = "reload failed: " + err.Error()
			return res.envCheck(w)
		}
	}
	if !barrier(p) {
		p.Close()
		res.Failure = "the Core terminated during the reload: " + w.logTail()
		return res.envCheck(w)
	}
	s1, _ := w.snapshot(p)
	// Some in-place reloads are asynchronous (the record cleaner assigns the new path configurations in its own
	// goroutine after the hand-over): a difference with the fresh Core is only reported when it persists.
	for _, wait := range []time.Duration{5, 10, 20, 40, 80, 150} {
		differs := false
		for n, b := range s1 {
			if f := f1[n]; f != nil && b.present && f.present && b.sig != f.sig {
				differs = true
			}
		}
		if !differs {
			break
		}
		time.Sleep(wait * time.Millisecond)
		s1, _ = w.snapshot(p)
	}
	p.Close()
	runtime.KeepAlive(pins)

	var names []string
	for n := range s0 {
		names = append(names, n)
	}
	sort.Strings(names)
	for _, n := range names {
		a, b, f := s0[n], s1[n], f1[n]
		co := CompObs{Name: n, Order: a.order, P0: a.present, P1: b != nil && b.present, PF: f != nil && f.present}
		if a.present {
			co.Sig0 = a.sig
			co.Refs0 = refTargets(a.refs)
		}
		if co.P1 {
			co.Sig1 = b.sig
			co.Same = a.present && a.ptr == b.ptr
			for k, t := range b.refs {
				if strings.HasPrefix(t, "STALE") {
					co.Stale = append(co.Stale, k+"="+t)
				}
			}
			sort.Strings(co.Stale)
		}
		if co.PF {
			co.SigF = f.sig
		}
		if co.P1 && co.PF && b.sig != f.sig {
			co.Diff = map[string][2]string{}
			for k, v := range f.fields {
				if b.fields[k] != v {
					co.Diff[k] = [2]string{short(b.fields[k]), short(v)}
				}
			}
			for k, v := range b.fields {
				if _, ok := f.fields[k]; !ok {
					co.Diff[k] = [2]string{short(v), "<absent>"}
				}
			}
			for k, v := range f.refs {
				if b.refs[k] != v && !strings.HasPrefix(b.refs[k], "STALE") { // stale references are reported on their own
					co.Diff["ref "+k] = [2]string{b.refs[k], v}
				}
			}
			for k, v := range b.refs {
				if _, ok := f.refs[k]; !ok {
					co.Diff["ref "+k] = [2]string{v, "<absent>"}
				}
			}
		}
		if a.present && co.PF && a.sig != f.sig {
			for k, v := range f.fields {
				if a.fields[k] != v {
					co.Changed = append(co.Changed, k)
				}
			}
			for k, v := range f.refs {
				if a.refs[k] != v {
					co.Changed = append(co.Changed, "ref "+k)
				}
			}
			sort.Strings(co.Changed)
		}
		res.Comps = append(res.Comps, co)
	}
	return res
}

func short(s string) string {
	if len(s) > 160 {
		return s[:160] + "…"
	}
	return s
}

func workerMain(idx int, tmp string) {
	dir := filepath.Join(tmp, fmt.Sprintf("w%d", idx))
	err := os.MkdirAll(dir, 0o755)
	if err == nil {
		err = os.Chdir(dir)
	}
	for name, content := range map[string][]byte{
		"server.crt": test.TLSCertPub, "server.key": test.TLSCertKey,
		"alt.crt": test.TLSCertPubAlt, "alt.key": test.TLSCertKeyAlt,
	} {
		if err == nil {
			err = os.WriteFile(filepath.Join(dir, name), content, 0o644)
		}
	}
	block := 0
	if err == nil {
		block, err = c12lib.PickBlock(25000, idx, 64, portBlock)
	}
	liveBlock := 0
	if err == nil {
		// the live-state family runs two small Cores at a time: two blocks of livePorts ports behind the main block
		liveBlock, err = c12lib.PickBlock(25000+portBlock, idx, 64, 2*livePorts)
	}
	w := &c13worker{idx: idx, dir: dir, block: block, liveBlock: liveBlock, fresh: map[string]map[string]*compSnap{}}
	c12lib.WorkerLoop(func(raw json.RawMessage) any {
		if err != nil {
			return &CaseResult{HarnessError: err.Error()}
		}
		var probe struct {
			Mode string `json:"mode"`
		}
		if e := json.Unmarshal(raw, &probe); e == nil && probe.Mode != "" {
			var lc LiveCase
			if e = json.Unmarshal(raw, &lc); e != nil {
				return &LiveResult{Live: true, HarnessError: "bad case: " + e.Error()}
			}
			return w.runLive(&lc)
		}
		var c Case
		if e := json.Unmarshal(raw, &c); e != nil {
			return &CaseResult{HarnessError: "bad case: " + e.Error()}
		}
		return w.run(&c)
	})
}
