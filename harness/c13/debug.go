package main

import (
	"fmt"
	"os"

	"github.com/bluenviron/mediamtx/internal/core"
	"github.com/bluenviron/mediamtx/internal/test"
)

func countInotify() int {
	ents, _ := os.ReadDir("/proc/self/fd")
	n := 0
	for _, e := range ents {
		if t, err := os.Readlink("/proc/self/fd/" + e.Name()); err == nil && t == "anon_inode:inotify" {
			n++
		}
	}
	return n
}

// debugLeak counts the inotify instances held by a full Core (diagnostic, not part of the check).
func debugLeak() {
	dir, _ := os.MkdirTemp("", "verif-c13dbg-")
	defer os.RemoveAll(dir)
	_ = os.Chdir(dir)
	_ = os.WriteFile("server.crt", test.TLSCertPub, 0o644)
	_ = os.WriteFile("server.key", test.TLSCertKey, 0o644)
	w := &c13worker{dir: dir, block: 27900, fresh: map[string]map[string]*compSnap{}}
	for i, cfg := range []map[string]any{baseConf(), apply(baseConf(), g("api", "apiEncryption", true)), apply(baseConf(), g("rtsp", "rtspAddress", "1.2.3.4:1"))} {
		p, ok := w.start(w.subst(cfg), 1)
		fmt.Fprintf(os.Stderr, "config %d: started=%v inotify=%d\n", i, ok, countInotify())
		if ok {
			core.VerifC13Quiesce(p)
			if i == 0 {
				snap, _ := core.VerifC13Snapshot(p)
				for _, c := range snap {
					fmt.Fprintf(os.Stderr, "component %s: not observed: %v\n", c.Name, c.Skipped)
				}
			}
			p.Close()
		}
		fmt.Fprintf(os.Stderr, "config %d: after close inotify=%d\n", i, countInotify())
	}
}
