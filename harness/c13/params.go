package main

import (
	"encoding/json"
	"fmt"
	"reflect"
	"sort"
	"strings"

	"github.com/bluenviron/mediamtx/internal/conf"
)

// Port placeholders: a configuration travels from the parent to a worker with "@A<k>@" inside strings
// (port k of the worker's private block) and "@I<k>@" as a whole string value (the same, as a number).

func addr(k int) string    { return fmt.Sprintf("127.0.0.1:@A%d@", k) }
func addrAlt(k int) string { return fmt.Sprintf("127.0.0.2:@A%d@", k) } // same port, other loopback address
func iport(k int) string   { return fmt.Sprintf("@I%d@", k) }

// port indices inside a worker's block
const (
	pAPI = iota
	pMetrics
	pPPROF
	pPlayback
	pRTSP
	pRTSPS
	pRTP // even
	pRTCP
	pSRTP // even
	pSRTCP
	pMcRTP // even
	pMcRTCP
	pMcSRTP // even
	pMcSRTCP
	pRTMP
	pRTMPS
	pHLS
	pWebRTC
	pWebRTCUDP
	pWebRTCTCP
	pSRT
	pMoQ2
	pMoQ3
	pMoQQ
	pAltMcRTP   = 30 // even
	pAltMcRTCP  = 31
	pAltMcSRTP  = 32 // even
	pAltMcSRTCP = 33
	portBlock   = 40
)

// baseConf: every component enabled, everything on loopback in the worker's port block.
func baseConf() map[string]any {
	return map[string]any{
		"api": true, "apiAddress": addr(pAPI),
		"metrics": true, "metricsAddress": addr(pMetrics),
		"pprof": true, "pprofAddress": addr(pPPROF),
		"playback": true, "playbackAddress": addr(pPlayback),
		"rtspEncryption": "optional", "rtspAddress": addr(pRTSP), "rtspsAddress": addr(pRTSPS),
		"rtpAddress": addr(pRTP), "rtcpAddress": addr(pRTCP), "srtpAddress": addr(pSRTP), "srtcpAddress": addr(pSRTCP),
		"multicastRTPPort": iport(pMcRTP), "multicastRTCPPort": iport(pMcRTCP),
		"multicastSRTPPort": iport(pMcSRTP), "multicastSRTCPPort": iport(pMcSRTCP),
		"rtmpEncryption": "optional", "rtmpAddress": addr(pRTMP), "rtmpsAddress": addr(pRTMPS),
		"hlsAddress": addr(pHLS),
		"webrtcAddress": addr(pWebRTC), "webrtcLocalUDPAddress": addr(pWebRTCUDP), "webrtcLocalTCPAddress": addr(pWebRTCTCP),
		"srtAddress": addr(pSRT),
		"moqHTTP2Address": addr(pMoQ2), "moqHTTP3Address": addr(pMoQ3), "moqQUICAddress": addr(pMoQQ),
		"moqServerKey": "server.key", "moqServerCert": "server.crt",
		"paths": map[string]any{"p1": map[string]any{}},
	}
}

// Delta is one change of the configuration: global parameters, path-default parameters, path edits.
type Delta struct {
	Name     string         `json:"name"`
	Global   map[string]any `json:"global,omitempty"`
	Defaults map[string]any `json:"defaults,omitempty"`
	Paths    map[string]any `json:"paths,omitempty"` // name -> fields, or nil = delete the path
	Group    string         `json:"group,omitempty"` // component group of the parameter (for the triples of the thorough tier)
	Dep      bool           `json:"dep,omitempty"`   // deprecated alias of another parameter
}

func g(group, name string, v any) Delta {
	return Delta{Name: name, Global: map[string]any{name: v}, Group: group}
}

func dep(group, name string, v any) Delta {
	d := g(group, name, v)
	d.Dep = true
	return d
}

// compound: parameters that are only valid when changed together
func g2(group string, kv ...any) Delta {
	d := Delta{Global: map[string]any{}, Group: group}
	var names []string
	for i := 0; i < len(kv); i += 2 {
		d.Global[kv[i].(string)] = kv[i+1]
		names = append(names, kv[i].(string))
	}
	d.Name = strings.Join(names, "+")
	return d
}

var users2 = []any{
	map[string]any{"user": "any", "permissions": []any{map[string]any{"action": "publish"}, map[string]any{"action": "read"},
		map[string]any{"action": "playback"}, map[string]any{"action": "api"}, map[string]any{"action": "metrics"}, map[string]any{"action": "pprof"}}},
	map[string]any{"user": "u2", "pass": "p2", "permissions": []any{map[string]any{"action": "read"}}},
}

// deltas lists, for every global parameter of conf.Conf, one or two alternative valid values
// (relative to baseConf), plus changes of the path defaults and of the paths.
func deltas() []Delta {
	ip := []any{"127.0.0.3"}
	ds := []Delta{
		// general
		g("log", "logLevel", "debug"), g("log", "logLevel", "warn"),
		g("log", "logDestinations", []any{"stdout", "file"}),
		g("log", "logStructured", true),
		g("log", "logFile", "other.log"),
		g("log", "sysLogPrefix", "mtx2"),
		g("general", "dumpPackets", true),
		g("general", "readTimeout", "5s"),
		g("general", "writeTimeout", "5s"),
		g("general", "writeQueueSize", 1024),
		g("general", "udpMaxPayloadSize", 1400),
		g("general", "udpReadBufferSize", 65536),
		g("general", "runOnConnect", "true"),
		g("general", "runOnConnectRestart", true),
		g("general", "runOnDisconnect", "true"),
		dep("general", "readBufferCount", 1024),
		// authentication
		g2("auth", "authMethod", "http", "authHTTPAddress", "http://127.0.0.1:9/auth"),
		g2("auth", "authMethod", "jwt", "authJWTJWKS", "http://127.0.0.1:9/jwks"),
		g("auth", "authInternalUsers", users2),
		g("auth", "authHTTPAddress", "http://127.0.0.1:9/auth"),
		g("auth", "authHTTPFingerprint", "aabb"),
		g("auth", "authHTTPExclude", []any{map[string]any{"action": "api"}}),
		g("auth", "authJWTJWKS", "http://127.0.0.1:9/jwks"),
		g("auth", "authJWTJWKSFingerprint", "aabb"),
		g("auth", "authJWTClaimKey", "perm"),
		g("auth", "authJWTExclude", []any{map[string]any{"action": "api"}}),
		g("auth", "authJWTIssuer", "iss"),
		g("auth", "authJWTAudience", "aud"),
		dep("auth", "authJWTInHTTPQuery", true),
		dep("auth", "externalAuthenticationURL", "http://127.0.0.1:9/ext"),
		// control API
		g("api", "api", false),
		g("api", "apiAddress", addrAlt(pAPI)),
		g("api", "apiEncryption", true),
		g("api", "apiServerKey", "alt.key"),
		g("api", "apiServerCert", "alt.crt"),
		g("api", "apiAllowOrigins", []any{"http://a.example"}),
		g("api", "apiTrustedProxies", ip),
		dep("api", "apiAllowOrigin", "http://b.example"),
		// metrics
		g("metrics", "metrics", false),
		g("metrics", "metricsAddress", addrAlt(pMetrics)),
		g("metrics", "metricsEncryption", true),
		g("metrics", "metricsServerKey", "alt.key"),
		g("metrics", "metricsServerCert", "alt.crt"),
		g("metrics", "metricsAllowOrigins", []any{"http://a.example"}),
		g("metrics", "metricsTrustedProxies", ip),
		dep("metrics", "metricsAllowOrigin", "http://b.example"),
		// pprof
		g("pprof", "pprof", false),
		g("pprof", "pprofAddress", addrAlt(pPPROF)),
		g("pprof", "pprofEncryption", true),
		g("pprof", "pprofServerKey", "alt.key"),
		g("pprof", "pprofServerCert", "alt.crt"),
		g("pprof", "pprofAllowOrigins", []any{"http://a.example"}),
		g("pprof", "pprofTrustedProxies", ip),
		dep("pprof", "pprofAllowOrigin", "http://b.example"),
		// playback
		g("playback", "playback", false),
		g("playback", "playbackAddress", addrAlt(pPlayback)),
		g("playback", "playbackEncryption", true),
		g("playback", "playbackServerKey", "alt.key"),
		g("playback", "playbackServerCert", "alt.crt"),
		g("playback", "playbackAllowOrigins", []any{"http://a.example"}),
		g("playback", "playbackTrustedProxies", ip),
		dep("playback", "playbackAllowOrigin", "http://b.example"),
		// RTSP
		g("rtsp", "rtsp", false),
		g("rtsp", "rtspTransports", []any{"tcp"}), g("rtsp", "rtspTransports", []any{"udp", "tcp"}),
		g("rtsp", "rtspEncryption", "no"), g("rtsp", "rtspEncryption", "strict"),
		g("rtsp", "rtspAddress", addrAlt(pRTSP)),
		g("rtsp", "rtspsAddress", addrAlt(pRTSPS)),
		g("rtsp", "rtpAddress", addrAlt(pRTP)),
		g("rtsp", "rtcpAddress", addrAlt(pRTCP)),
		g("rtsp", "multicastIPRange", "224.2.0.0/16"),
		g2("rtsp", "multicastRTPPort", iport(pAltMcRTP), "multicastRTCPPort", iport(pAltMcRTCP)),
		g("rtsp", "srtpAddress", addrAlt(pSRTP)),
		g("rtsp", "srtcpAddress", addrAlt(pSRTCP)),
		g2("rtsp", "multicastSRTPPort", iport(pAltMcSRTP), "multicastSRTCPPort", iport(pAltMcSRTCP)),
		g2("rtsp", "rtspServerKey", "alt.key", "rtspServerCert", "alt.crt"), // in use (RTSPS is enabled): only valid together
		g("rtsp", "rtspAuthMethods", []any{"basic", "digest"}),
		g("rtsp", "rtspTrustedProxies", ip),
		dep("rtsp", "rtspUDPReadBufferSize", 65536),
		dep("rtsp", "rtspDisable", true),
		dep("rtsp", "protocols", []any{"tcp"}),
		dep("rtsp", "encryption", "strict"), dep("rtsp", "encryption", "no"),
		func() Delta {
			d := g2("rtsp", "serverKey", "alt.key", "serverCert", "alt.crt")
			d.Dep = true
			return d
		}(),
		dep("rtsp", "authMethods", []any{"basic", "digest"}),
		// RTMP
		g("rtmp", "rtmp", false),
		g("rtmp", "rtmpEncryption", "no"), g("rtmp", "rtmpEncryption", "strict"),
		g("rtmp", "rtmpAddress", addrAlt(pRTMP)),
		g("rtmp", "rtmpsAddress", addrAlt(pRTMPS)),
		g2("rtmp", "rtmpServerKey", "alt.key", "rtmpServerCert", "alt.crt"),
		g("rtmp", "rtmpTrustedProxies", ip),
		dep("rtmp", "rtmpDisable", true),
		// HLS
		g("hls", "hls", false),
		g("hls", "hlsAddress", addrAlt(pHLS)),
		g("hls", "hlsEncryption", true),
		g("hls", "hlsServerKey", "alt.key"),
		g("hls", "hlsServerCert", "alt.crt"),
		g("hls", "hlsAllowOrigins", []any{"http://a.example"}),
		g("hls", "hlsTrustedProxies", ip),
		g("hls", "hlsAlwaysRemux", true),
		g("hls", "hlsVariant", "mpegts"), g("hls", "hlsVariant", "fmp4"),
		g("hls", "hlsSegmentCount", 8),
		g("hls", "hlsSegmentDuration", "2s"),
		g("hls", "hlsPartDuration", "300ms"),
		g("hls", "hlsSegmentMaxSize", "40M"),
		g("hls", "hlsDirectory", "hlsdir"),
		g("hls", "hlsMuxerCloseAfter", "30s"),
		g("hls", "hlsCDNSecret", "secret123"),
		dep("hls", "hlsDisable", true),
		dep("hls", "hlsAllowOrigin", "http://b.example"),
		// WebRTC
		g("webrtc", "webrtc", false),
		g("webrtc", "webrtcAddress", addrAlt(pWebRTC)),
		g("webrtc", "webrtcEncryption", true),
		g("webrtc", "webrtcServerKey", "alt.key"),
		g("webrtc", "webrtcServerCert", "alt.crt"),
		g("webrtc", "webrtcAllowOrigins", []any{"http://a.example"}),
		g("webrtc", "webrtcTrustedProxies", ip),
		g("webrtc", "webrtcLocalUDPAddress", addrAlt(pWebRTCUDP)),
		g("webrtc", "webrtcLocalTCPAddress", addrAlt(pWebRTCTCP)), g("webrtc", "webrtcLocalTCPAddress", ""),
		g2("webrtc", "webrtcIPsFromInterfaces", false, "webrtcAdditionalHosts", []any{"127.0.0.1"}),
		g("webrtc", "webrtcIPsFromInterfacesList", []any{"lo"}),
		g("webrtc", "webrtcAdditionalHosts", []any{"127.0.0.1"}),
		g("webrtc", "webrtcICEServers2", []any{map[string]any{"url": "stun:127.0.0.1:9"}}),
		g("webrtc", "webrtcSTUNGatherTimeout", "4s"),
		g("webrtc", "webrtcHandshakeTimeout", "9s"),
		g("webrtc", "webrtcTrackGatherTimeout", "3s"),
		dep("webrtc", "webrtcDisable", true),
		dep("webrtc", "webrtcAllowOrigin", "http://b.example"),
		dep("webrtc", "webrtcICEUDPMuxAddress", addrAlt(pWebRTCUDP)),
		dep("webrtc", "webrtcICETCPMuxAddress", addrAlt(pWebRTCTCP)),
		dep("webrtc", "webrtcICEHostNAT1To1IPs", []any{"127.0.0.1"}),
		dep("webrtc", "webrtcICEServers", []any{"stun:127.0.0.1:9"}),
		// SRT
		g("srt", "srt", false),
		g("srt", "srtAddress", addrAlt(pSRT)),
		// MoQ
		g("moq", "moq", false),
		g("moq", "moqHTTP2Address", addrAlt(pMoQ2)),
		g("moq", "moqHTTP3Address", addrAlt(pMoQ3)),
		g("moq", "moqQUICAddress", addrAlt(pMoQQ)),
		g2("moq", "moqServerKey", "alt.key", "moqServerCert", "alt.crt"),
		g("moq", "moqAllowOrigins", []any{"http://a.example"}),
		g("moq", "moqTrustedProxies", ip),
		dep("moq", "moqHTTPS2Address", addrAlt(pMoQ2)),
		dep("moq", "moqHTTPS3Address", addrAlt(pMoQ3)),
		// record (deprecated global aliases of the path defaults)
		dep("paths", "record", true),
		dep("paths", "recordPath", "./rec2/%path/%Y-%m-%d_%H-%M-%S-%f"),
		dep("paths", "recordFormat", "mpegts"),
		dep("paths", "recordPartDuration", "2s"),
		dep("paths", "recordSegmentDuration", "30m"),
		dep("paths", "recordDeleteAfter", "48h"),
		// path defaults and paths (reloaded in place by the path manager, the playback server and the record cleaner)
		{Name: "pathDefaults.maxReaders", Defaults: map[string]any{"maxReaders": 5}, Group: "paths"},
		{Name: "pathDefaults.recordDeleteAfter=0", Defaults: map[string]any{"recordDeleteAfter": "0s"}, Group: "paths"},
		{Name: "paths.add(p2)", Paths: map[string]any{"p2": map[string]any{}}, Group: "paths"},
		{Name: "paths.patch(p1)", Paths: map[string]any{"p1": map[string]any{"maxReaders": 3}}, Group: "paths"},
		{Name: "paths.delete(p1)", Paths: map[string]any{"p1": nil}, Group: "paths"},
	}
	return ds
}

// confParamNames lists the JSON names of the global parameters of conf.Conf by reflection, so that a
// parameter added to the configuration without an entry in deltas() is noticed.
func confParamNames() []string {
	var out []string
	t := reflect.TypeOf(conf.Conf{})
	for i := 0; i < t.NumField(); i++ {
		j := strings.Split(t.Field(i).Tag.Get("json"), ",")[0]
		if j == "" || j == "-" || j == "pathDefaults" || j == "paths" {
			continue
		}
		out = append(out, j)
	}
	sort.Strings(out)
	return out
}

// apply returns base with the deltas applied (deep copy through JSON).
func apply(base map[string]any, ds ...Delta) map[string]any {
	buf, _ := json.Marshal(base)
	var out map[string]any
	_ = json.Unmarshal(buf, &out)
	for _, d := range ds {
		for k, v := range d.Global {
			out[k] = v
		}
		if len(d.Defaults) > 0 {
			pd, _ := out["pathDefaults"].(map[string]any)
			if pd == nil {
				pd = map[string]any{}
			}
			for k, v := range d.Defaults {
				pd[k] = v
			}
			out["pathDefaults"] = pd
		}
		if len(d.Paths) > 0 {
			ps, _ := out["paths"].(map[string]any)
			if ps == nil {
				ps = map[string]any{}
			}
			for n, f := range d.Paths {
				if f == nil {
					delete(ps, n)
				} else {
					ps[n] = f
				}
			}
			out["paths"] = ps
		}
	}
	return out
}

// conflict reports whether two deltas touch the same parameter (such a pair is not a pair of parameters).
func conflict(a, b Delta) bool {
	for k := range a.Global {
		if _, ok := b.Global[k]; ok {
			return true
		}
	}
	for k := range a.Defaults {
		if _, ok := b.Defaults[k]; ok {
			return true
		}
	}
	for k := range a.Paths {
		if _, ok := b.Paths[k]; ok {
			return true
		}
	}
	return false
}
