// C13: hot reload applies every changed parameter to running components.
//
// Engine X on a REAL core.Core with every component enabled (metrics, pprof, playback, API, RTSP+RTSPS,
// RTMP+RTMPS, HLS, WebRTC, SRT, MoQ, record cleaner) on a private block of loopback ports, in worker
// subprocesses. A case is a pair (old, new) of valid configurations: a Core is started with old, brought to
// new by a reload -- through the API entry points of Core (Clone + Patch* + Validate + reloadConf in Core.run)
// or through the "configuration file changed" branch (conf.Load + reloadConf) -- and every component is
// observed by reflection (shim zz_verif_c13.go: identity, plain-data fields, which component every
// pointer/interface field refers to). The oracle is differential, there is no hand-written expectation:
//   (1) after the reload every component has the fields and references of a FRESH Core started with new
//       (a parameter that was not applied shows as a field that still has the old value);
//   (2) no reference points to a component instance that was closed;
//   (3) a component whose observation is the same in a fresh old and a fresh new Core, and none of whose
//       referenced components was recreated, is the SAME instance after the reload.
package main

import (
	"encoding/json"
	"flag"
	"fmt"
	"os"
	"sort"
	"strings"
	"time"

	"github.com/bluenviron/mediamtx/internal/conf"
	"github.com/bluenviron/mediamtx/internal/zzverif/c12lib"
	"github.com/bluenviron/mediamtx/internal/zzverif/vcommon"
)

var (
	flagWorker = flag.Int("worker", -1, "internal: run as worker i")
	flagWTmp   = flag.String("wtmp", "", "internal: worker temp dir")
	flagProcs  = flag.Int("procs", 0, "worker processes (0 = one per core, max 16)")
	flagBudget = flag.Duration("budget", 0, "internal deadline (0 = tier default)")
	flagDebugLeak = flag.Bool("debug-leak", false, "debug: count inotify instances of a Core")
	flagOnly   = flag.String("only", "", "debug: only cases whose label contains this text")
	flagLive   = flag.String("live", "on", "live-state family: on | off | only (debug)")
	flagLiveDump = flag.Bool("live-dump", false, "debug: print the answer to every case of the live-state family")
)

type caseInfo struct {
	c      *Case
	label  string   // human-readable: base, deltas, route
	base   string   // name of the base configuration
	names  []string // names of the deltas
	params []string // names of the parameters that differ between old and new
	vals   map[string]any
	kind   string // single | reverse | pair | triple | chain
	noIdentity bool
}

// defaults of the global parameters and of the path defaults, as JSON values (for reverse edits through the API)
func confDefaults() (map[string]any, map[string]any) {
	dir, err := os.MkdirTemp("", "verif-c13d-")
	if err != nil {
		vcommon.Harness("mkdtemp: %v", err)
	}
	defer os.RemoveAll(dir)
	fn := dir + "/empty.yml"
	_ = os.WriteFile(fn, []byte("{}\n"), 0o644)
	c, _, err := conf.Load(fn, nil, nil)
	if err != nil {
		vcommon.Harness("conf.Load of an empty file: %v", err)
	}
	var gl, pd map[string]any
	b, _ := json.Marshal(c.Global())
	_ = json.Unmarshal(b, &gl)
	b, _ = json.Marshal(c.PathDefaults)
	_ = json.Unmarshal(b, &pd)
	return gl, pd
}

// reverse returns the delta that undoes d on top of base, when it can be expressed as API edits.
func reverse(base map[string]any, d Delta, defG, defP map[string]any) (Delta, bool) {
	r := Delta{Name: "undo(" + d.Name + ")", Group: d.Group}
	if len(d.Global) > 0 {
		r.Global = map[string]any{}
		for k := range d.Global {
			if v, ok := base[k]; ok {
				r.Global[k] = v
			} else if v, ok := defG[k]; ok {
				r.Global[k] = v
			} else {
				return r, false // an optional (deprecated) parameter cannot be unset through the API
			}
		}
	}
	if len(d.Defaults) > 0 {
		r.Defaults = map[string]any{}
		bd, _ := base["pathDefaults"].(map[string]any)
		for k := range d.Defaults {
			if v, ok := bd[k]; ok {
				r.Defaults[k] = v
			} else if v, ok := defP[k]; ok {
				r.Defaults[k] = v
			} else {
				return r, false
			}
		}
	}
	if len(d.Paths) > 0 {
		r.Paths = map[string]any{}
		bp, _ := base["paths"].(map[string]any)
		for n := range d.Paths {
			if v, ok := bp[n]; ok {
				r.Paths[n] = v
			} else {
				r.Paths[n] = nil
			}
		}
	}
	return r, true
}

func pathNamesOf(cfg map[string]any) []string {
	ps, _ := cfg["paths"].(map[string]any)
	var out []string
	for n := range ps {
		out = append(out, n)
	}
	sort.Strings(out)
	return out
}

func paramsOf(ds ...Delta) ([]string, map[string]any) {
	var out []string
	vals := map[string]any{}
	for _, d := range ds {
		for k, v := range d.Global {
			out = append(out, k)
			vals[k] = v
		}
		for k, v := range d.Defaults {
			out = append(out, "pathDefaults."+k)
			vals["pathDefaults."+k] = v
		}
		for k := range d.Paths {
			out = append(out, "paths."+k)
		}
	}
	sort.Strings(out)
	return out, vals
}

func main() {
	flag.Parse()
	if *flagWorker >= 0 {
		workerMain(*flagWorker, *flagWTmp)
		return
	}
	if *flagDebugLeak {
		debugLeak()
		return
	}
	r := vcommon.Start("C13", "model_checking")
	budget := 50 * time.Second
	if r.Thorough() {
		budget = 13 * time.Minute
	}
	if *flagBudget > 0 {
		budget = *flagBudget
	}
	ds := deltas()
	defG, defP := confDefaults()

	// every global parameter of conf.Conf must have an alternative value in the table
	covered := map[string]bool{}
	for _, d := range ds {
		for k := range d.Global {
			covered[k] = true
		}
	}
	var uncovered []string
	for _, n := range confParamNames() {
		if !covered[n] {
			uncovered = append(uncovered, n)
		}
	}
	if len(uncovered) > 0 {
		vcommon.Harness("global parameters of conf.Conf without an alternative value in harness/c13/params.go: %v", uncovered)
	}

	b0 := baseConf()
	b1 := apply(b0, Delta{Global: map[string]any{"rtspUDPReadBufferSize": 65536, "authJWTInHTTPQuery": true}})

	var cases []*caseInfo
	add := func(baseName string, kind, route string, old, nw map[string]any, steps []Delta, via []Delta, noIdentity bool) {
		ci := &caseInfo{base: baseName, kind: kind, noIdentity: noIdentity}
		for _, d := range via {
			ci.names = append(ci.names, d.Name)
		}
		ci.params, ci.vals = paramsOf(via...)
		ci.label = fmt.Sprintf("%s %s [%s] via %s on base %s", kind, strings.Join(ci.names, " , "), stepNames(steps), route, baseName)
		ci.c = &Case{ID: len(cases), Old: old, New: nw, Steps: steps, Route: route, OldHas: pathNamesOf(old)}
		cases = append(cases, ci)
	}
	inPlace := func(d Delta) bool {
		return len(d.Defaults) > 0 || len(d.Paths) > 0 || d.Name == "authInternalUsers" || d.Name == "record" || d.Name == "recordDeleteAfter"
	}

	quickInPlace := map[string]bool{"authInternalUsers": true, "paths.add(p2)": true, "paths.delete(p1)": true,
		"pathDefaults.recordDeleteAfter=0": true, "pathDefaults.maxReaders": true}
	// --- singles: base -> base+d and base+d -> base, both routes
	for _, d := range ds {
		nw := apply(b0, d)
		add("all-enabled", "single", "api", b0, nw, []Delta{d}, []Delta{d}, false)
		add("all-enabled", "single", "file", b0, nw, []Delta{d}, []Delta{d}, false)
		add("all-enabled", "reverse", "file", nw, b0, nil, []Delta{d}, false)
		if rv, ok := reverse(b0, d, defG, defP); ok {
			add("all-enabled", "reverse", "api", nw, b0, []Delta{rv}, []Delta{d}, false)
		}
	}
	// --- the same single changes on a base where the optional (pointer-typed) parameters are set
	for i, d := range ds {
		if conflict(d, Delta{Global: map[string]any{"rtspUDPReadBufferSize": 0, "authJWTInHTTPQuery": 0}}) {
			continue
		}
		if !r.Thorough() && !(inPlace(d) || i%9 == 0) {
			continue
		}
		add("all-enabled+optional-pointer-parameters-set", "single", "api", b1, apply(b1, d), []Delta{d}, []Delta{d}, false)
		if r.Thorough() {
			add("all-enabled+optional-pointer-parameters-set", "single", "file", b1, apply(b1, d), []Delta{d}, []Delta{d}, false)
		}
	}
	// --- pairs
	for i, a := range ds {
		for j, b := range ds {
			if j <= i || conflict(a, b) {
				continue
			}
			if !r.Thorough() && !(quickInPlace[a.Name] || quickInPlace[b.Name]) {
				// quick tier: the pairs in which one change is reloaded in place (guards "if !closeX && changed"),
				// one representative per in-place reload
				continue
			}
			if r.Thorough() && (a.Dep || b.Dep) && !(inPlace(a) || inPlace(b)) {
				continue
			}
			nw := apply(b0, a, b)
			route := "api"
			steps := []Delta{a, b}
			if len(a.Global) > 0 && len(b.Global) > 0 {
				// one PATCH of the global configuration with both parameters
				m := map[string]any{}
				for k, v := range a.Global {
					m[k] = v
				}
				for k, v := range b.Global {
					m[k] = v
				}
				steps = []Delta{{Name: a.Name + "+" + b.Name, Global: m}}
			} else {
				route = "file"
			}
			add("all-enabled", "pair", route, b0, nw, steps, []Delta{a, b}, false)
		}
	}
	if r.Thorough() {
		// --- chains A -> B -> A through the API
		for _, d := range ds {
			if rv, ok := reverse(b0, d, defG, defP); ok {
				add("all-enabled", "chain", "api", b0, b0, []Delta{d, rv}, []Delta{d}, true)
			}
		}
		// --- triples inside each component group
		for i, a := range ds {
			for j, b := range ds {
				for k, c := range ds {
					if !(i < j && j < k) || a.Group != b.Group || b.Group != c.Group || a.Dep || b.Dep || c.Dep ||
						conflict(a, b) || conflict(a, c) || conflict(b, c) {
						continue
					}
					add("all-enabled", "triple", "file", b0, apply(b0, a, b, c), nil, []Delta{a, b, c}, false)
				}
			}
		}
	}
	if *flagOnly != "" {
		var f []*caseInfo
		for _, ci := range cases {
			if strings.Contains(ci.label, *flagOnly) {
				ci.c.ID = len(f)
				f = append(f, ci)
			}
		}
		cases = f
	}

	tmp, err := os.MkdirTemp("", "verif-c13-")
	if err != nil {
		vcommon.Harness("mkdtemp: %v", err)
	}
	defer os.RemoveAll(tmp)
	procs := *flagProcs
	if procs == 0 {
		// a Core with every component enabled holds 7 to 11 inotify instances (configuration watcher + two per TLS
		// certificate loader) and the per-user limit is 128: at most 8 Cores at a time
		procs = 8
	}
	pool := c12lib.NewPool(procs, tmp, "-tier", r.Tier)
	// a Core that fails to start leaks the watchers of the certificate loaders created before the failure:
	// the worker that saw it is replaced
	pool.Recycle = func(raw json.RawMessage) bool {
		return strings.Contains(string(raw), `"skip":`) || strings.Contains(string(raw), `"env":`) || strings.Contains(string(raw), `"failure":`)
	}
	defer pool.Close()
	fail := func(format string, a ...any) {
		pool.Close()
		os.RemoveAll(tmp)
		vcommon.Harness(format, a...)
	}

	r.Rule = fmt.Sprintf("pairs (old,new) of valid configurations built from a base with every component enabled and a table of %d "+
		"alternative values covering all %d global parameters of conf.Conf (reflection-checked) plus path-default and path edits: "+
		"all single changes in both directions through both reload routes; pairs (quick: those with an in-place reloadable change; "+
		"thorough: all), thorough also A->B->A chains and triples inside a component group; "+
		"distinct = (set of recreated components, set of components whose observation changed) classes; "+
		"live-state family: %d configuration pairs that create/remove/recreate/reconfigure a component deriving state from live streams "+
		"x %d client histories x reload routes, real RTSP clients, state shown by the HTTP interfaces after the reload vs. a fresh Core with the "+
		"same clients (distinct = recreated components, client fates and derived state)", len(ds), len(confParamNames()), len(livePairs()), len(liveModes))

	// run, in chunks so that the deadline ends the enumeration cleanly
	type outcome struct {
		ci  *caseInfo
		res *CaseResult
	}
	var done []outcome
	cores := 0
	envRetries := 0
	var crashNotes []string
	exhaustive := true
	chunk := pool.N * 8
	runCases := func(list []*caseInfo) []*CaseResult {
		jobs := make([]any, len(list))
		for i, ci := range list {
			jobs[i] = ci.c
		}
		out := make([]*CaseResult, len(list))
		for i, pr := range pool.Run(jobs) {
			for retry := 0; pr.Crash != "" && retry < 2; retry++ {
				// a death that does not reproduce is recorded (evidence: worker_crashes, note) but is not a verdict on C13
				crashNotes = append(crashNotes, list[i].label+": "+lastChars(pr.Crash, 1200))
				pr = pool.Run([]any{list[i].c})[0]
			}
			if pr.Crash != "" {
				out[i] = &CaseResult{Failure: "the process died (3 executions out of 3): " + lastChars(pr.Crash, 2500)}
				continue
			}
			var cr CaseResult
			if err := json.Unmarshal(pr.Raw, &cr); err != nil {
				fail("bad worker answer: %v", err)
			}
			if cr.HarnessError != "" {
				fail("case %s: %s", list[i].label, cr.HarnessError)
			}
			cores += cr.Cores
			out[i] = &cr
		}
		// a Core start refused by the machine (limits shared with other processes) is not an observation
		for round := 0; round < 10; round++ {
			var idx []int
			var again []any
			for i, cr := range out {
				if cr.Env != "" {
					idx = append(idx, i)
					again = append(again, list[i].c)
				}
			}
			if len(idx) == 0 {
				break
			}
			envRetries += len(idx)
			time.Sleep(time.Duration(500*(round+1)) * time.Millisecond)
			// fewer Cores alive from now on: the machine is short of inotify instances (limit shared with other processes)
			if pool.Limit == 0 || pool.Limit > 2 {
				pool.Limit = max(2, pool.N/2)
				if round > 1 {
					pool.Limit = 2
				}
			}
			prs := pool.Run(again)
			for k, pr := range prs {
				var cr CaseResult
				if pr.Crash != "" {
					cr = CaseResult{Failure: "the process died: " + lastChars(pr.Crash, 2500)}
				} else if err := json.Unmarshal(pr.Raw, &cr); err != nil {
					fail("bad worker answer: %v", err)
				}
				cores += cr.Cores
				out[idx[k]] = &cr
			}
		}
		for i, cr := range out {
			if cr.Env != "" {
				fail("case %s: %s (11 attempts over 30 s)", list[i].label, cr.Env)
			}
		}
		return out
	}
	// ---- the live-state family (live.go): a fixed small table, always completed; the budget of the enumeration
	// below starts afterwards
	var liveFindings []liveFinding
	if *flagLive != "off" {
		liveFindings = runLiveFamily(r, pool, *flagOnly, fail)
	}
	if *flagLive == "only" {
		cases = nil
	}
	deadline := time.Now().Add(budget)

	// determinism discipline: the first case is run twice and must give the same observation
	if len(cases) > 0 {
		two := runCases([]*caseInfo{cases[0], cases[0]})
		a, _ := json.Marshal(two[0].Comps)
		b, _ := json.Marshal(two[1].Comps)
		if string(a) != string(b) {
			fail("nondeterministic: two executions of %s differ:\n%s\n%s", cases[0].label, a, b)
		}
	}
	for lo := 0; lo < len(cases); lo += chunk {
		if time.Now().After(deadline) {
			exhaustive = false
			r.Note("deadline reached: %d of %d cases done (all singles come first)", lo, len(cases))
			break
		}
		hi := min(lo+chunk, len(cases))
		for i, cr := range runCases(cases[lo:hi]) {
			done = append(done, outcome{cases[lo+i], cr})
		}
	}

	// ---- oracle ---------------------------------------------------------------------------------------
	type finding struct {
		key, what string
		ci        *caseInfo
	}
	var findings []finding
	singleNotApplied := map[string]map[string]string{} // delta name -> "comp.field" not applied -> parameter it is attributed to
	// consumed[component] = the parameters that, changed alone from the base, change the component's observation in a
	// fresh Core or its presence (learned from the forward single changes): recreating a component when one of the
	// parameters it consumes changes is accepted even if the derived value happens to be the same
	consumed := map[string]map[string]bool{}
	for _, o := range done {
		if o.ci.kind != "single" || o.ci.base != "all-enabled" || o.res.Skip != "" || o.res.Failure != "" {
			continue
		}
		for _, c := range o.res.Comps {
			if c.P0 != c.PF || c.Sig0 != c.SigF {
				if consumed[c.Name] == nil {
					consumed[c.Name] = map[string]bool{}
				}
				for _, p := range o.ci.params {
					consumed[c.Name][p] = true
				}
			}
		}
	}
	skipped, failed := 0, 0
	skipReasons := map[string]string{}
	states := map[string]bool{}
	needless := map[string]map[string][]*caseInfo{} // "comp|base" -> delta label -> cases
	judge := func(o outcome, record bool) []finding {
		var fs []finding
		ci, cr := o.ci, o.res
		if cr.Skip != "" {
			return nil
		}
		if cr.Failure != "" {
			fs = append(fs, finding{"reload-failed:" + strings.Join(ci.names, ","), fmt.Sprintf("%s: %s", ci.label, cr.Failure), ci})
			return fs
		}
		comps := map[string]*CompObs{}
		for i := range cr.Comps {
			comps[cr.Comps[i].Name] = &cr.Comps[i]
		}
		recreated := func(n string) bool {
			c := comps[n]
			return c != nil && c.P0 && (!c.P1 || !c.Same)
		}
		loggerRecreated := recreated("logger")
		var recr, chg []string
		for _, c := range cr.Comps {
			if recreated(c.Name) {
				recr = append(recr, c.Name)
			}
			if c.P0 != c.PF || c.Sig0 != c.SigF {
				chg = append(chg, c.Name)
			}
			// (1) new values
			if c.P1 != c.PF {
				fs = append(fs, finding{fmt.Sprintf("presence:%s:%s", c.Name, strings.Join(ci.names, ",")),
					fmt.Sprintf("%s: component %s alive after the reload = %v, in a fresh Core with the new configuration = %v", ci.label, c.Name, c.P1, c.PF), ci})
			}
			var fields []string
			for f := range c.Diff {
				fields = append(fields, f)
			}
			sort.Strings(fields)
			for _, f := range fields {
				d := c.Diff[f]
				param := attribute(ci, d[1])
				cf := c.Name + "." + f
				// the same field already seen stale with one of the changes alone (forward direction): same cause, same key
				known := false
				for _, n := range ci.names {
					if p, ok := singleNotApplied[n][cf]; ok {
						param, known = p, true
					}
				}
				if !known && ci.kind == "single" && record {
					for _, n := range ci.names {
						if singleNotApplied[n] == nil {
							singleNotApplied[n] = map[string]string{}
						}
						singleNotApplied[n][cf] = param
					}
				}
				fs = append(fs, finding{fmt.Sprintf("not-applied:%s->%s", param, strings.ReplaceAll(cf, " ", ":")),
					fmt.Sprintf("%s: after the reload %s is %s, a fresh Core with the new configuration has %s (component instance kept: %v)",
						ci.label, cf, d[0], d[1], c.Same), ci})
			}
			// (2) stale references
			for _, s := range c.Stale {
				fs = append(fs, finding{fmt.Sprintf("stale-reference:%s.%s", c.Name, strings.SplitN(s, "=", 2)[0]),
					fmt.Sprintf("%s: %s.%s refers to a closed component instance", ci.label, c.Name, s), ci})
			}
			// (3) identity
			if !ci.noIdentity && c.P0 && c.P1 && !c.Same && c.PF {
				legit := c.Sig0 != c.SigF || (loggerRecreated && c.Name != "logger")
				for _, p := range ci.params {
					if consumed[c.Name][p] {
						legit = true
					}
				}
				for _, t := range c.Refs0 {
					// a component is built from components created before it (order of the fields of Core); references in the
					// other direction are registrations made afterwards (metrics -> servers, path manager -> HLS server)
					if tc := comps[t]; tc != nil && tc.Order < c.Order && recreated(t) {
						legit = true
					}
				}
				if !legit {
					k := c.Name + "|" + ci.base
					if record {
						if needless[k] == nil {
							needless[k] = map[string][]*caseInfo{}
						}
						dn := strings.Join(ci.names, ",")
						for _, n := range ci.names {
							// already seen with one of the changes alone: same cause
							if len(ci.names) > 1 && len(needless[k][n]) > 0 {
								dn = n
							}
						}
						needless[k][dn] = append(needless[k][dn], ci)
					} else {
						fs = append(fs, finding{"needless-recreate:" + c.Name, ci.label, ci})
					}
				}
			}
		}
		if record {
			states[strings.Join(recr, ",")+"|"+strings.Join(chg, ",")] = true
			r.Distinct("recreated{" + strings.Join(recr, ",") + "} changed{" + strings.Join(chg, ",") + "}")
		}
		return fs
	}
	for _, o := range done {
		r.Eval(1)
		if o.res.Skip != "" {
			skipped++
			skipReasons[o.ci.label] = o.res.Skip
			continue
		}
		if o.res.Failure != "" {
			failed++
		}
		findings = append(findings, judge(o, true)...)
	}
	// needless recreations: one key per (component, base, change); when a component is recreated whatever the change is
	// (5 or more different changes) the changes are collapsed into "*"
	var nk []string
	for k := range needless {
		nk = append(nk, k)
	}
	sort.Strings(nk)
	for _, k := range nk {
		parts := strings.SplitN(k, "|", 2)
		var dns []string
		for dn := range needless[k] {
			dns = append(dns, dn)
		}
		sort.Strings(dns)
		if len(dns) >= 5 {
			ci := needless[k][dns[0]][0]
			findings = append(findings, finding{fmt.Sprintf("needless-recreate:%s:base=%s:*", parts[0], parts[1]),
				fmt.Sprintf("component %s is closed and recreated by %d different changes that touch none of its parameters nor a component it refers to "+
					"(e.g. %s; all: %s): its clients are disconnected for nothing", parts[0], len(dns), ci.label, vcommon.Short(strings.Join(dns, " | "), 400)), ci})
			continue
		}
		for _, dn := range dns {
			ci := needless[k][dn][0]
			findings = append(findings, finding{fmt.Sprintf("needless-recreate:%s:base=%s:%s", parts[0], parts[1], strings.ReplaceAll(dn, " ", "")),
				fmt.Sprintf("%s: component %s is closed and recreated although its observation in a fresh Core is the same under the old and the new "+
					"configuration and no component it refers to was recreated: its clients are disconnected for nothing", ci.label, parts[0]), ci})
		}
	}

	// every finding is re-executed twice: it must reproduce (otherwise it is a harness problem, not a verdict)
	rechecked := map[int]bool{}
	var again []*caseInfo
	for _, f := range findings {
		if !rechecked[f.ci.c.ID] && len(again) < 200 {
			rechecked[f.ci.c.ID] = true
			again = append(again, f.ci, f.ci)
		}
	}
	if len(again) > 0 {
		first := map[int]string{}
		for _, o := range done {
			if rechecked[o.ci.c.ID] {
				b, _ := json.Marshal(stripPtr(o.res))
				first[o.ci.c.ID] = string(b)
			}
		}
		for i, cr := range runCases(again) {
			b, _ := json.Marshal(stripPtr(cr))
			if string(b) != first[again[i].c.ID] {
				fail("nondeterministic: re-execution of %s gave a different observation: %s", again[i].label, jsonDiff(first[again[i].c.ID], string(b)))
			}
		}
	}
	for _, f := range findings {
		r.Violation(f.key, f.what, map[string]any{
			"base": f.ci.base, "change": f.ci.names, "old": f.ci.c.Old, "new": f.ci.c.New, "route": f.ci.c.Route, "steps": f.ci.c.Steps,
			"how": "start mediamtx with `old` (@A<k>@/@I<k>@ = free loopback ports), apply `steps` through the Control API (route api) or write `new` to the configuration file (route file), compare the components with a fresh start on `new`"})
	}
	for _, f := range liveFindings {
		r.Violation(f.key, f.what, map[string]any{
			"pair": f.li.c.Pair, "mode": f.li.c.Mode, "route": f.li.c.Route, "old": f.li.c.Old, "new": f.li.c.New, "patch": f.li.c.Patch,
			"how": "start mediamtx with `old` (@L<k>@ = free loopback ports, @LDIR@ = a directory), publish H264 over RTSP/TCP to the path `live` " +
				"(mode pub+reader: also read it over RTSP; mode pub-left: disconnect the publisher again), write `new` to the configuration file " +
				"(route file) or send `patch` to PATCH /v3/config/global/patch (route api), let the clients that were disconnected connect again, " +
				"and compare /v3/paths/list, /v3/hlsmuxers/list, the protocol lists, /v3/recordings/get/live, /metrics and the playback /list " +
				"with a second mediamtx started with `new` to which the same clients connected"})
	}
	pool.Close()

	kinds := map[string]int{}
	for _, o := range done {
		kinds[o.ci.kind+"/"+o.ci.c.Route]++
	}
	var ks []string
	for k, v := range kinds {
		ks = append(ks, fmt.Sprintf("%s=%d", k, v))
	}
	sort.Strings(ks)
	for i, o := range done {
		if i%(len(done)/8+1) == 0 {
			r.Sample(o.ci.label)
		}
	}
	r.Set("states", len(states))
	r.Set("transitions", len(done)-skipped)
	r.Set("traces_validated_against_impl", cores)
	r.Set("cases_by_kind", ks)
	r.Set("cases_skipped_not_startable", skipped)
	r.Set("reload_failures", failed)
	r.Set("core_starts_refused_by_the_machine_and_retried", envRetries)
	{
		var sk []string
		for l, why := range skipReasons {
			sk = append(sk, l+": "+vcommon.Short(why, 300))
		}
		sort.Strings(sk)
		if len(sk) > 40 {
			sk = sk[:40]
		}
		r.Set("skipped_cases", sk)
	}
	r.Set("parameters_covered", len(confParamNames()))
	r.Set("alternative_values", len(ds))
	r.Set("worker_crashes", pool.Crashed.Load())
	for i, n := range crashNotes {
		if i < 3 {
			r.Note("a worker process died once and the case passed when re-executed (not a C13 verdict): %s", n)
		}
	}
	r.Set("bound_completed", fmt.Sprintf("%d of %d enumerated cases", len(done), len(cases)))
	r.Exhaustive = exhaustive
	r.Assumptions = []string{
		"a component = a pointer field of core.Core; its parameters = its plain-data fields (strings, numbers, booleans, slices, maps, internal/conf structs) and the components its pointer/interface fields refer to, read by reflection after a barrier through Core.run and the path manager loop",
		"recreating any component together with the logger is accepted (every component logs through Core's logger)",
		"one or two alternative values per parameter; listeners move to 127.0.0.2 on the same port; syslog, JWT/HTTP auth servers and real clients are outside the alphabet",
		"main family: client connections are not probed, 'keeps running' is decided by instance identity",
		"live-state family: one H264 RTSP/TCP publisher (and one RTSP/TCP reader) on one static path; the derived state is what the Control API, " +
			"the metrics and the playback server show (identifiers, times and traffic counters left out); a difference must persist for 12 s of rounds; " +
			"'absent' facts (no new recording segment, no muxer) are judged once 8 further frames were written and the positive wait conditions hold on both sides",
	}
	if len(states) < 4 && *flagOnly == "" && *flagLive != "only" {
		fail("vacuous: only %d distinct reload classes", len(states))
	}
	pool.Close()
	os.RemoveAll(tmp) // Finish exits the process: deferred calls do not run
	r.Finish()
}

func stepNames(steps []Delta) string {
	var n []string
	for _, s := range steps {
		n = append(n, s.Name)
	}
	if len(n) == 0 {
		return "file content"
	}
	return strings.Join(n, " ; ")
}

// attribute names the changed parameter whose new value is the one a stale field should have.
func attribute(ci *caseInfo, want string) string {
	if len(ci.params) == 1 {
		return ci.params[0]
	}
	var cand []string
	for _, p := range ci.params {
		v, ok := ci.vals[p]
		if !ok {
			continue
		}
		tok := fmt.Sprint(v)
		tok = strings.NewReplacer("@I", "@", "@A", "@").Replace(tok)
		if s, ok := v.(string); ok {
			tok = strings.NewReplacer("@I", "@", "@A", "@").Replace(s)
		}
		if tok != "" && strings.Contains(want, tok) {
			cand = append(cand, p)
		}
	}
	if len(cand) == 1 {
		return cand[0]
	}
	return strings.Join(ci.params, "+")
}

func stripPtr(cr *CaseResult) any {
	c := *cr
	c.Cores = 0
	c.ID = 0
	return c
}

// jsonDiff shows where two case results differ (diagnostics of a harness error).
func jsonDiff(a, b string) string {
	var ra, rb CaseResult
	_ = json.Unmarshal([]byte(a), &ra)
	_ = json.Unmarshal([]byte(b), &rb)
	if ra.Failure != rb.Failure || ra.Skip != rb.Skip {
		return fmt.Sprintf("failure %q/%q skip %q/%q", ra.Failure, rb.Failure, ra.Skip, rb.Skip)
	}
	var out []string
	for i := range ra.Comps {
		if i < len(rb.Comps) {
			x, _ := json.Marshal(ra.Comps[i])
			y, _ := json.Marshal(rb.Comps[i])
			if string(x) != string(y) {
				out = append(out, string(x)+" VS "+string(y))
			}
		}
	}
	return strings.Join(out, "\n")
}

func lastChars(s string, n int) string {
	if len(s) > n {
		return "…" + s[len(s)-n:]
	}
	return s
}
