// spike
package main

import (
	"encoding/json"
	"flag"
	"fmt"
	"os"
	"time"

	"github.com/bluenviron/mediamtx/internal/core"
	"github.com/bluenviron/mediamtx/internal/test"
	"github.com/bluenviron/mediamtx/internal/zzverif/c12lib"
)

func main() {
	flag.String("tier","","")
	flag.Parse()
	dir, _ := os.MkdirTemp("", "c13spike")
	defer os.RemoveAll(dir)
	os.Chdir(dir)
	os.WriteFile("server.crt", test.TLSCertPub, 0o644)
	os.WriteFile("server.key", test.TLSCertKey, 0o644)
	b, err := c12lib.PickBlock(25000, 0, 64, 48)
	if err != nil {
		panic(err)
	}
	a := func(k int) string { return fmt.Sprintf("127.0.0.1:%d", b+k) }
	cfg := map[string]any{
		"api": true, "apiAddress": a(0),
		"metrics": true, "metricsAddress": a(1),
		"pprof": true, "pprofAddress": a(2),
		"playback": true, "playbackAddress": a(3),
		"rtspEncryption": "optional", "rtspAddress": a(4), "rtspsAddress": a(5),
		"rtpAddress": a(6), "rtcpAddress": a(7), "srtpAddress": a(8), "srtcpAddress": a(9),
		"multicastRTPPort": b + 10, "multicastRTCPPort": b + 11, "multicastSRTPPort": b + 12, "multicastSRTCPPort": b + 13,
		"rtmpEncryption": "optional", "rtmpAddress": a(14), "rtmpsAddress": a(15),
		"hlsAddress": a(16), "webrtcAddress": a(17), "webrtcLocalUDPAddress": a(18), "webrtcLocalTCPAddress": a(19),
		"srtAddress": a(20), "moqHTTP2Address": a(21), "moqHTTP3Address": a(22), "moqQUICAddress": a(23),
		"moqServerKey": "server.key", "moqServerCert": "server.crt",
		"paths": map[string]any{"p1": map[string]any{}},
	}
	path, _ := c12lib.WriteConf(dir, "c.yml", cfg)
	for i := 0; i < 5; i++ {
		t0 := time.Now()
		p, ok := c12lib.StartCore(path)
		t1 := time.Now()
		if !ok {
			fmt.Println("START FAILED")
			return
		}
		snap, _ := core.VerifC13Snapshot(p)
		t2 := time.Now()
		p.Close()
		t3 := time.Now()
		fmt.Fprintln(os.Stderr, "start", t1.Sub(t0), "snap", t2.Sub(t1), "close", t3.Sub(t2))
		if i == 0 {
			buf, _ := json.MarshalIndent(snap, "", " ")
			os.Stderr.Write(buf)
		}
	}
}
