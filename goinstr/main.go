// goinstr rewrites Go concurrency syntax of selected packages into calls to the vsched shim.
//
//	goinstr -dir /repo -overlay in.json -out DIR [-modfile go.mod] [-notime pkg,...] [-maprange pkg,...] pkg...
//
// The packages are loaded type-checked (go/packages, same overlay), every non-test file that
// needs a rewrite is printed to DIR and DIR/overlay.json = input overlay + the rewritten files.
// Rewrites: go statements, channel send/receive/close/range/len, select, range over maps
// (canonical order), and the selectors of `time` and `sync` listed in selRewrites.
// Anything it cannot rewrite is a hard error (exit 1): never a silent skip.
package main

import (
	"bytes"
	"encoding/json"
	"flag"
	"fmt"
	"go/ast"
	"go/format"
	"go/token"
	"go/types"
	"os"
	"path/filepath"
	"sort"
	"strconv"
	"strings"

	"golang.org/x/tools/go/ast/astutil"
	"golang.org/x/tools/go/packages"
)

const shimPath = "github.com/bluenviron/mediamtx/zzverif/vsched"

var selRewrites = map[string]map[string]bool{
	"time": {
		"Now": true, "Since": true, "Until": true, "Sleep": true, "After": true, "AfterFunc": true,
		"NewTimer": true, "NewTicker": true, "Tick": true, "Timer": true, "Ticker": true,
	},
	"sync": {"Mutex": true, "RWMutex": true, "WaitGroup": true, "Cond": true, "NewCond": true, "Locker": true},
}

type rewriter struct {
	fset     *token.FileSet
	info     *types.Info
	tmp      int
	used     bool
	counts   map[string]int
	timeSh   bool
	mapRange bool
	errs     []string
	extra    map[string]string // "importpath.Sel" -> shim name (per-package opt-in rewrites)
}

func (r *rewriter) id(p string) *ast.Ident {
	r.tmp++
	return ast.NewIdent(fmt.Sprintf("__%s%d", p, r.tmp))
}

func sh(name string) ast.Expr {
	return &ast.SelectorExpr{X: ast.NewIdent("vsched"), Sel: ast.NewIdent(name)}
}

func call(name string, args ...ast.Expr) *ast.CallExpr {
	return &ast.CallExpr{Fun: sh(name), Args: args}
}

func (r *rewriter) typeOf(e ast.Expr) types.Type {
	tv, ok := r.info.Types[e]
	if !ok || tv.Type == nil {
		return nil
	}
	return tv.Type
}

func (r *rewriter) isChan(e ast.Expr) bool {
	t := r.typeOf(e)
	if t == nil {
		return false
	}
	_, ok := t.Underlying().(*types.Chan)
	return ok
}

func (r *rewriter) isMap(e ast.Expr) bool {
	t := r.typeOf(e)
	if t == nil {
		return false
	}
	_, ok := t.Underlying().(*types.Map)
	return ok
}

func define(lhs ast.Expr, rhs ast.Expr) ast.Stmt {
	return &ast.AssignStmt{Lhs: []ast.Expr{lhs}, Tok: token.DEFINE, Rhs: []ast.Expr{rhs}}
}

func (r *rewriter) lowerGo(g *ast.GoStmt) ast.Stmt {
	r.used = true
	r.counts["go"]++
	var stmts []ast.Stmt
	c := g.Call
	var fun ast.Expr
	if fl, ok := c.Fun.(*ast.FuncLit); ok {
		fun = &ast.ParenExpr{X: fl}
	} else {
		f := r.id("f")
		stmts = append(stmts, define(f, c.Fun))
		fun = f
	}
	var args []ast.Expr
	for _, a := range c.Args {
		t := r.id("a")
		stmts = append(stmts, define(t, a))
		args = append(args, t)
	}
	inner := &ast.CallExpr{Fun: fun, Args: args, Ellipsis: c.Ellipsis}
	lit := &ast.FuncLit{Type: &ast.FuncType{Params: &ast.FieldList{}}, Body: &ast.BlockStmt{List: []ast.Stmt{&ast.ExprStmt{X: inner}}}}
	stmts = append(stmts, &ast.ExprStmt{X: call("Go", lit)})
	return &ast.BlockStmt{List: stmts}
}

func unparen(e ast.Expr) ast.Expr {
	for {
		p, ok := e.(*ast.ParenExpr)
		if !ok {
			return e
		}
		e = p.X
	}
}

func (r *rewriter) lowerSelect(s *ast.SelectStmt, label *ast.Ident) ast.Stmt {
	r.used = true
	r.counts["select"]++
	var pre []ast.Stmt
	selv := r.id("s")
	var cases []ast.Expr
	var clauses []ast.Stmt
	hasDefault := false
	idx := 0
	for _, cl := range s.Body.List {
		cc := cl.(*ast.CommClause)
		if cc.Comm == nil {
			hasDefault = true
			clauses = append(clauses, &ast.CaseClause{List: []ast.Expr{&ast.UnaryExpr{Op: token.SUB, X: &ast.BasicLit{Kind: token.INT, Value: "1"}}}, Body: cc.Body})
			continue
		}
		var body []ast.Stmt
		switch c := cc.Comm.(type) {
		case *ast.SendStmt:
			ch, v := r.id("c"), r.id("v")
			pre = append(pre, define(ch, c.Chan), define(v, c.Value))
			cases = append(cases, call("S", ch, v))
		case *ast.ExprStmt:
			ch := r.id("c")
			pre = append(pre, define(ch, unparen(c.X).(*ast.UnaryExpr).X))
			cases = append(cases, call("R", ch))
		case *ast.AssignStmt:
			ch := r.id("c")
			pre = append(pre, define(ch, unparen(c.Rhs[0]).(*ast.UnaryExpr).X))
			cases = append(cases, call("R", ch))
			fn := "Got"
			if len(c.Lhs) == 2 {
				fn = "Got2"
			}
			body = append(body, &ast.AssignStmt{Lhs: c.Lhs, Tok: c.Tok, Rhs: []ast.Expr{call(fn, ch, selv)}})
			// `case v := <-ch:` with v unused in an empty body would not compile: keep Go's rule (v must be used) as is.
		default:
			r.errs = append(r.errs, fmt.Sprintf("%v: unexpected comm clause", r.fset.Position(cc.Pos())))
		}
		body = append(body, cc.Body...)
		clauses = append(clauses, &ast.CaseClause{
			List: []ast.Expr{&ast.BasicLit{Kind: token.INT, Value: strconv.Itoa(idx)}}, Body: body,
		})
		idx++
	}
	def := "false"
	if hasDefault {
		def = "true"
	}
	// keeps Go's terminating-statement analysis satisfied (a select without default never falls through)
	clauses = append(clauses, &ast.CaseClause{List: nil, Body: []ast.Stmt{
		&ast.ExprStmt{X: &ast.CallExpr{Fun: ast.NewIdent("panic"), Args: []ast.Expr{&ast.BasicLit{Kind: token.STRING, Value: `"vsched: unreachable select index"`}}}},
	}})
	args := append([]ast.Expr{ast.NewIdent(def)}, cases...)
	pre = append(pre, define(selv, call("Select", args...)))
	var sw ast.Stmt = &ast.SwitchStmt{Tag: &ast.SelectorExpr{X: selv, Sel: ast.NewIdent("I")}, Body: &ast.BlockStmt{List: clauses}}
	if label != nil {
		sw = &ast.LabeledStmt{Label: label, Stmt: sw}
	}
	return &ast.BlockStmt{List: append(pre, sw)}
}

// lowerRange rewrites `for x := range ch` and `for k, v := range m`.
func (r *rewriter) lowerRange(n *ast.RangeStmt, label *ast.Ident) ast.Stmt {
	wrap := func(pre []ast.Stmt, loop ast.Stmt) ast.Stmt {
		if label != nil {
			loop = &ast.LabeledStmt{Label: label, Stmt: loop}
		}
		return &ast.BlockStmt{List: append(pre, loop)}
	}
	if r.isChan(n.X) {
		r.used = true
		r.counts["rangechan"]++
		ch := r.id("c")
		okv := r.id("ok")
		val := r.id("x")
		pre := []ast.Stmt{define(ch, n.X)}
		var body []ast.Stmt
		body = append(body,
			&ast.AssignStmt{Lhs: []ast.Expr{val, okv}, Tok: token.DEFINE, Rhs: []ast.Expr{call("Recv2", ch)}},
			&ast.IfStmt{Cond: &ast.UnaryExpr{Op: token.NOT, X: okv}, Body: &ast.BlockStmt{List: []ast.Stmt{&ast.BranchStmt{Tok: token.BREAK}}}},
		)
		if n.Key != nil && !isBlank(n.Key) {
			body = append(body, &ast.AssignStmt{Lhs: []ast.Expr{n.Key}, Tok: n.Tok, Rhs: []ast.Expr{val}})
		} else {
			body = append(body, &ast.AssignStmt{Lhs: []ast.Expr{ast.NewIdent("_")}, Tok: token.ASSIGN, Rhs: []ast.Expr{val}})
		}
		body = append(body, n.Body.List...)
		return wrap(pre, &ast.ForStmt{Body: &ast.BlockStmt{List: body}})
	}
	if r.mapRange && r.isMap(n.X) && n.Key != nil {
		r.used = true
		r.counts["rangemap"]++
		m := r.id("m")
		pre := []ast.Stmt{define(m, n.X)}
		var key ast.Expr = n.Key
		tok := n.Tok
		if isBlank(n.Key) {
			key = r.id("k")
			tok = token.DEFINE
		}
		var body []ast.Stmt
		okv := r.id("ok")
		if n.Value != nil && !isBlank(n.Value) {
			if n.Tok == token.DEFINE {
				body = append(body, &ast.AssignStmt{Lhs: []ast.Expr{n.Value, okv}, Tok: token.DEFINE, Rhs: []ast.Expr{&ast.IndexExpr{X: m, Index: key}}})
			} else {
				body = append(body, &ast.DeclStmt{Decl: &ast.GenDecl{Tok: token.VAR, Specs: []ast.Spec{&ast.ValueSpec{Names: []*ast.Ident{okv}, Type: ast.NewIdent("bool")}}}},
					&ast.AssignStmt{Lhs: []ast.Expr{n.Value, okv}, Tok: token.ASSIGN, Rhs: []ast.Expr{&ast.IndexExpr{X: m, Index: key}}})
			}
		} else {
			body = append(body, &ast.AssignStmt{Lhs: []ast.Expr{ast.NewIdent("_"), okv}, Tok: token.DEFINE, Rhs: []ast.Expr{&ast.IndexExpr{X: m, Index: key}}})
		}
		// entries deleted during the iteration are not visited, as in Go
		body = append(body, &ast.IfStmt{Cond: &ast.UnaryExpr{Op: token.NOT, X: okv}, Body: &ast.BlockStmt{List: []ast.Stmt{&ast.BranchStmt{Tok: token.CONTINUE}}}})
		body = append(body, n.Body.List...)
		loop := &ast.RangeStmt{Key: ast.NewIdent("_"), Value: key, Tok: tok, X: call("MapKeys", m), Body: &ast.BlockStmt{List: body}}
		return wrap(pre, loop)
	}
	return nil
}

func isBlank(e ast.Expr) bool {
	id, ok := e.(*ast.Ident)
	return ok && id.Name == "_"
}

func (r *rewriter) file(f *ast.File) {
	// pass 1 (post-order, so nested statements are handled first): select, go, range
	astutil.Apply(f, nil, func(c *astutil.Cursor) bool {
		switch n := c.Node().(type) {
		case *ast.SelectStmt:
			if _, ok := c.Parent().(*ast.LabeledStmt); ok {
				return true // handled at the LabeledStmt
			}
			c.Replace(r.lowerSelect(n, nil))
		case *ast.RangeStmt:
			if _, ok := c.Parent().(*ast.LabeledStmt); ok {
				return true
			}
			if s := r.lowerRange(n, nil); s != nil {
				c.Replace(s)
			}
		case *ast.LabeledStmt:
			switch s := n.Stmt.(type) {
			case *ast.SelectStmt:
				c.Replace(r.lowerSelect(s, n.Label))
			case *ast.RangeStmt:
				if x := r.lowerRange(s, n.Label); x != nil {
					c.Replace(x)
				}
			}
		case *ast.GoStmt:
			c.Replace(r.lowerGo(n))
		}
		return true
	})
	// pass 2: remaining channel operations and selector rewrites
	astutil.Apply(f, nil, func(c *astutil.Cursor) bool {
		switch n := c.Node().(type) {
		case *ast.SendStmt:
			r.used = true
			r.counts["send"]++
			c.Replace(&ast.ExprStmt{X: call("Send", n.Chan, n.Value)})
		case *ast.UnaryExpr:
			if n.Op == token.ARROW {
				r.used = true
				r.counts["recv"]++
				fn := "Recv"
				if as, ok := c.Parent().(*ast.AssignStmt); ok && len(as.Lhs) == 2 && len(as.Rhs) == 1 {
					fn = "Recv2"
				}
				if vs, ok := c.Parent().(*ast.ValueSpec); ok && len(vs.Names) == 2 && len(vs.Values) == 1 {
					fn = "Recv2"
				}
				c.Replace(call(fn, n.X))
			}
		case *ast.CallExpr:
			if id, ok := n.Fun.(*ast.Ident); ok && len(n.Args) == 1 {
				if obj := r.info.Uses[id]; obj != nil && obj.Parent() == types.Universe {
					switch id.Name {
					case "close":
						r.used = true
						r.counts["close"]++
						c.Replace(call("Close", n.Args[0]))
					case "len":
						if r.isChan(n.Args[0]) {
							r.used = true
							r.counts["lenchan"]++
							c.Replace(call("Len", n.Args[0]))
						}
					case "cap":
						// cap(ch) is a property of the real channel: left alone
					}
				}
			}
		case *ast.SelectorExpr:
			if id, ok := n.X.(*ast.Ident); ok {
				if pn, ok := r.info.Uses[id].(*types.PkgName); ok {
					p := pn.Imported().Path()
					if nn, ok := r.extra[p+"."+n.Sel.Name]; ok {
						r.used = true
						r.counts[p+"."+n.Sel.Name]++
						c.Replace(sh(nn))
					} else if (p == "time" && r.timeSh || p == "sync") && selRewrites[p][n.Sel.Name] {
						r.used = true
						r.counts[p+"."+n.Sel.Name]++
						prefix := "T"
						if p == "sync" {
							prefix = "S"
						}
						c.Replace(sh(prefix + n.Sel.Name))
					}
				}
			}
		}
		return true
	})
}

func main() {
	out := flag.String("out", "", "output dir")
	overlayIn := flag.String("overlay", "", "input overlay json")
	dir := flag.String("dir", "/repo", "module dir")
	noTime := flag.String("notime", "", "comma list of pkg paths where time is not shimmed")
	mapRange := flag.String("maprange", "*", "comma list of pkg paths where map ranges are canonicalised (* = all)")
	modfile := flag.String("modfile", "", "alternate go.mod")
	tags := flag.String("tags", "verif", "build tags")
	extraFlag := flag.String("extra", "", "per-package selector rewrites: pkgpath:importpath.Sel=Shim,...;pkgpath:...")
	flag.Parse()
	extra := map[string]map[string]string{}
	for _, part := range strings.Split(*extraFlag, ";") {
		if part == "" {
			continue
		}
		i := strings.Index(part, ":")
		if i < 0 {
			fatal("bad -extra %q", part)
		}
		m := map[string]string{}
		for _, kv := range strings.Split(part[i+1:], ",") {
			j := strings.Index(kv, "=")
			if j < 0 {
				fatal("bad -extra %q", kv)
			}
			m[kv[:j]] = kv[j+1:]
		}
		extra[part[:i]] = m
	}
	cfg := &packages.Config{
		Mode: packages.NeedName | packages.NeedFiles | packages.NeedCompiledGoFiles | packages.NeedSyntax |
			packages.NeedTypes | packages.NeedTypesInfo | packages.NeedImports | packages.NeedDeps,
		Dir: *dir,
	}
	cfg.BuildFlags = []string{"-tags=" + *tags}
	replace := map[string]string{}
	if *overlayIn != "" {
		cfg.BuildFlags = append(cfg.BuildFlags, "-overlay="+*overlayIn)
		var ov struct{ Replace map[string]string }
		b, err := os.ReadFile(*overlayIn)
		if err != nil {
			fatal("%v", err)
		}
		if err := json.Unmarshal(b, &ov); err != nil {
			fatal("%v", err)
		}
		cfg.Overlay = map[string][]byte{}
		for k, v := range ov.Replace {
			replace[k] = v
			if strings.HasSuffix(k, ".go") {
				c, err := os.ReadFile(v)
				if err != nil {
					fatal("%v", err)
				}
				cfg.Overlay[k] = c
			}
		}
	}
	if *modfile != "" {
		cfg.BuildFlags = append(cfg.BuildFlags, "-modfile="+*modfile)
	}
	pkgs, err := packages.Load(cfg, flag.Args()...)
	if err != nil {
		fatal("load: %v", err)
	}
	if packages.PrintErrors(pkgs) > 0 {
		os.Exit(1)
	}
	if err := os.MkdirAll(*out, 0o755); err != nil {
		fatal("%v", err)
	}
	total := map[string]int{}
	for _, p := range pkgs {
		for i, f := range p.Syntax {
			fname := p.CompiledGoFiles[i]
			if strings.HasSuffix(fname, "_test.go") {
				continue
			}
			r := &rewriter{
				fset: p.Fset, info: p.TypesInfo, counts: map[string]int{},
				timeSh:   !strings.Contains(","+*noTime+",", ","+p.PkgPath+","),
				mapRange: *mapRange == "*" || strings.Contains(","+*mapRange+",", ","+p.PkgPath+","),
				extra:    extra[p.PkgPath],
			}
			r.file(f)
			if len(r.errs) > 0 {
				fatal("%s", strings.Join(r.errs, "\n"))
			}
			if !r.used {
				continue
			}
			has := false
			for _, imp := range f.Imports {
				if imp.Path.Value == strconv.Quote(shimPath) {
					has = true
				}
			}
			if !has {
				astutil.AddNamedImport(p.Fset, f, "vsched", shimPath)
			}
			cleanup := []string{"time", "sync", "os/exec", "syscall", "github.com/fsnotify/fsnotify"}
			for k := range r.extra { // import paths of the opt-in selector rewrites of this package
				if i := strings.LastIndex(k, "."); i > 0 {
					cleanup = append(cleanup, k[:i])
				}
			}
			for _, imp := range cleanup {
				if !astutil.UsesImport(f, imp) {
					astutil.DeleteImport(p.Fset, f, imp)
				}
			}
			var buf bytes.Buffer
			if err := format.Node(&buf, p.Fset, f); err != nil {
				fatal("%s: %v", fname, err)
			}
			dst := filepath.Join(*out, strings.ReplaceAll(strings.TrimPrefix(fname, "/"), "/", "__"))
			// only touch the file when its content changes (keeps the Go build cache warm)
			if old, err := os.ReadFile(dst); err != nil || !bytes.Equal(old, buf.Bytes()) {
				if err := os.WriteFile(dst, buf.Bytes(), 0o644); err != nil {
					fatal("%v", err)
				}
			}
			replace[fname] = dst
			for k, v := range r.counts {
				total[k] += v
			}
		}
	}
	b, _ := json.MarshalIndent(map[string]any{"Replace": replace}, "", " ")
	if err := os.WriteFile(filepath.Join(*out, "overlay.json"), b, 0o644); err != nil {
		fatal("%v", err)
	}
	keys := make([]string, 0, len(total))
	for k := range total {
		keys = append(keys, k)
	}
	sort.Strings(keys)
	var sb strings.Builder
	for _, k := range keys {
		fmt.Fprintf(&sb, " %s=%d", k, total[k])
	}
	fmt.Fprintf(os.Stderr, "goinstr: rewrote%s\n", sb.String())
}

func fatal(f string, a ...any) {
	fmt.Fprintf(os.Stderr, "goinstr: "+f+"\n", a...)
	os.Exit(1)
}
