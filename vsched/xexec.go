package vsched

import (
	"fmt"
	"io"
	"os/exec"
	"strings"
	"syscall"
)

// XCmd replaces exec.Cmd in internal/externalcmd (opt-in rewrite). While an exploration runs no
// process is spawned: Start logs "exec start <argv>", Wait blocks until the fake process is
// killed with XKill (logs "exec kill <argv>"), except for the command name "vexit<N>", which
// exits by itself with status N.
type XCmd struct {
	Path        string
	Args        []string
	Env         []string
	Dir         string
	Stdout      io.Writer
	Stderr      io.Writer
	SysProcAttr *syscall.SysProcAttr
	Process     *XProcess

	real   *exec.Cmd
	killed chan struct{}
}

// XProcess replaces os.Process (only Pid is used).
type XProcess struct{ Pid int }



// fake pids are above Linux's pid_max (4194304) so that a stray real kill cannot hit anything
const fakePidBase = 0x40000000

// XCommand replaces exec.Command.
func XCommand(name string, args ...string) *XCmd {
	return &XCmd{Path: name, Args: append([]string{name}, args...)}
}

// Start starts the (fake) process.
func (c *XCmd) Start() error {
	if G == nil {
		c.real = exec.Command(c.Args[0], c.Args[1:]...)
		c.real.Env, c.real.Dir, c.real.Stdout, c.real.Stderr, c.real.SysProcAttr = c.Env, c.Dir, c.Stdout, c.Stderr, c.SysProcAttr
		err := c.real.Start()
		if err == nil {
			c.Process = &XProcess{Pid: c.real.Process.Pid}
		}
		return err
	}
	if c.Args[0] == "vnotfound" {
		return fmt.Errorf("exec: %q: executable file not found in $PATH", c.Args[0])
	}
	if G.xprocs == nil {
		G.xprocs = map[int]*XCmd{}
	}
	pid := fakePidBase + len(G.xprocs)
	G.xprocs[pid] = c
	c.Process = &XProcess{Pid: pid}
	c.killed = make(chan struct{})
	Log("exec start %s", strings.Join(c.Args, " "))
	return nil
}

// Wait waits for the (fake) process.
func (c *XCmd) Wait() error {
	if c.real != nil {
		return c.real.Wait()
	}
	if strings.HasPrefix(c.Args[0], "vexit") {
		Yield()
		Log("exec exit %s", strings.Join(c.Args, " "))
		if c.Args[0] != "vexit0" {
			return fmt.Errorf("exit status %s", c.Args[0][5:])
		}
		return nil
	}
	Recv(c.killed)
	return fmt.Errorf("signal: interrupt")
}

// XKill replaces syscall.Kill.
func XKill(pid int, sig syscall.Signal) error {
	if G == nil {
		return syscall.Kill(pid, sig)
	}
	if pid < 0 {
		pid = -pid
	}
	c := G.xprocs[pid]
	if c == nil {
		return syscall.ESRCH
	}
	Log("exec kill %s", strings.Join(c.Args, " "))
	select {
	case <-c.killed:
	default:
		Close(c.killed)
	}
	return nil
}
