package vsched

import (
	"cmp"
	"fmt"
	"reflect"
	"slices"
	"sort"
	"strings"
	"sync"
	"time"
)

// ---- sync shims (dual mode: real primitive when no exploration is active) ----

// SMutex replaces sync.Mutex.
type SMutex struct {
	real sync.Mutex
	held bool
}

// Lock is a scheduling point, enabled iff the mutex is free.
func (m *SMutex) Lock() {
	if G == nil {
		m.real.Lock()
		return
	}
	yield(&op{kind: opLock, mu: m})
}

// Unlock releases the mutex.
func (m *SMutex) Unlock() {
	if G == nil {
		m.real.Unlock()
		return
	}
	if !m.held && !G.aborting {
		Fail("unlock of unlocked mutex at %s", site())
	}
	m.held = false
}

// TryLock tries to lock.
func (m *SMutex) TryLock() bool {
	if G == nil {
		return m.real.TryLock()
	}
	if m.held {
		return false
	}
	m.held = true
	return true
}

// SRWMutex replaces sync.RWMutex. Go's writer preference is modelled: Lock first announces the
// writer (from then on new RLocks block), then acquires when the readers have drained.
type SRWMutex struct {
	real     sync.RWMutex
	writer   bool
	readers  int
	wwaiting int
}

// Lock locks for writing.
func (m *SRWMutex) Lock() {
	if G == nil {
		m.real.Lock()
		return
	}
	yield(&op{kind: opLock, rw: m})
}

// Unlock unlocks for writing.
func (m *SRWMutex) Unlock() {
	if G == nil {
		m.real.Unlock()
		return
	}
	if !m.writer && !G.aborting {
		Fail("unlock of unlocked RWMutex at %s", site())
	}
	m.writer = false
}

// RLock locks for reading.
func (m *SRWMutex) RLock() {
	if G == nil {
		m.real.RLock()
		return
	}
	yield(&op{kind: opRLock, rw: m})
}

// RUnlock unlocks for reading.
func (m *SRWMutex) RUnlock() {
	if G == nil {
		m.real.RUnlock()
		return
	}
	if m.readers <= 0 && !G.aborting {
		Fail("RUnlock of unlocked RWMutex at %s", site())
	}
	m.readers--
}

// SWaitGroup replaces sync.WaitGroup.
type SWaitGroup struct {
	real sync.WaitGroup
	n    int
}

// Add adds delta.
func (w *SWaitGroup) Add(d int) {
	if G == nil {
		w.real.Add(d)
		return
	}
	w.n += d
	if w.n < 0 && !G.aborting {
		Fail("negative WaitGroup counter at %s", site())
	}
}

// Done decrements.
func (w *SWaitGroup) Done() { w.Add(-1) }

// Wait waits for zero.
func (w *SWaitGroup) Wait() {
	if G == nil {
		w.real.Wait()
		return
	}
	yield(&op{kind: opWGWait, wg: w})
}

// Go runs f in a new goroutine tracked by the group (Go 1.25 API).
func (w *SWaitGroup) Go(f func()) {
	w.Add(1)
	Go(func() {
		defer w.Done()
		f()
	})
}

// SLocker is sync.Locker.
type SLocker interface {
	Lock()
	Unlock()
}

// SCond replaces sync.Cond.
type SCond struct {
	L       SLocker
	real    *sync.Cond
	waiters []*op
}

// SNewCond replaces sync.NewCond.
func SNewCond(l SLocker) *SCond { return &SCond{L: l, real: sync.NewCond(l)} }

// Wait atomically unlocks and suspends, then re-locks.
func (c *SCond) Wait() {
	if G == nil {
		c.real.Wait()
		return
	}
	c.L.Unlock()
	o := &op{kind: opCondWait, cond: c}
	c.waiters = append(c.waiters, o)
	yield(o)
	c.L.Lock()
}

// Signal wakes one waiter.
func (c *SCond) Signal() {
	if G == nil {
		c.real.Signal()
		return
	}
	if len(c.waiters) > 0 {
		c.waiters[0].signal = true
		c.waiters = c.waiters[1:]
	}
}

// Broadcast wakes all waiters.
func (c *SCond) Broadcast() {
	if G == nil {
		c.real.Broadcast()
		return
	}
	for _, w := range c.waiters {
		w.signal = true
	}
	c.waiters = nil
}

// ---- time shims ----

// TTimer replaces time.Timer and time.Ticker.
type TTimer struct {
	C      <-chan time.Time
	tm     *timer
	real   *time.Timer
	realTk *time.Ticker
}

// TTicker replaces time.Ticker.
type TTicker = TTimer

func newTimer(d time.Duration, period time.Duration, fn func()) *TTimer {
	s := G
	if d < 0 {
		d = 0
	}
	var ch chan time.Time
	tm := &timer{id: s.nextTm, deadline: s.now + d, fn: fn, period: period, active: true, site: site()}
	if fn == nil {
		ch = make(chan time.Time, 1)
		tm.ch = reflect.ValueOf(ch)
	}
	for _, b := range s.opt.Bg {
		if strings.Contains(tm.site, b) {
			tm.bg = true
		}
	}
	for _, b := range s.opt.BgTimers {
		if strings.Contains(tm.site, b) {
			tm.bg = true
		}
	}
	if d == 0 && fn == nil && period == 0 {
		// NewTimer(0) (the repository's emptyTimer idiom): fires at once, no separate transition
		tm.active = false
		chanOf(tm.ch).buf = append(chanOf(tm.ch).buf, reflect.ValueOf(base.Add(s.now)))
	}
	s.nextTm++
	s.timers = append(s.timers, tm)
	// drop dead one-shot timers now and then
	if len(s.timers) > 64 {
		k := 0
		for _, x := range s.timers {
			if x.active {
				s.timers[k] = x
				k++
			}
		}
		if k < len(s.timers)/2 {
			s.timers = s.timers[:k]
		}
	}
	return &TTimer{C: ch, tm: tm}
}

// TNewTimer replaces time.NewTimer.
func TNewTimer(d time.Duration) *TTimer {
	if G == nil {
		r := time.NewTimer(d)
		return &TTimer{C: r.C, real: r}
	}
	return newTimer(d, 0, nil)
}

// TNewTicker replaces time.NewTicker.
func TNewTicker(d time.Duration) *TTimer {
	if G == nil {
		r := time.NewTicker(d)
		return &TTimer{C: r.C, realTk: r}
	}
	if d <= 0 {
		panic("non-positive interval for NewTicker")
	}
	return newTimer(d, d, nil)
}

// TAfter replaces time.After.
func TAfter(d time.Duration) <-chan time.Time {
	if G == nil {
		return time.After(d)
	}
	return newTimer(d, 0, nil).C
}

// TTick replaces time.Tick.
func TTick(d time.Duration) <-chan time.Time {
	if G == nil {
		return time.Tick(d) //nolint
	}
	return newTimer(d, d, nil).C
}

// TAfterFunc replaces time.AfterFunc: f runs as a new task when the timer fires.
func TAfterFunc(d time.Duration, f func()) *TTimer {
	if G == nil {
		return &TTimer{real: time.AfterFunc(d, f)}
	}
	return newTimer(d, 0, f)
}

func (t *TTimer) drain() {
	if t.tm.ch.IsValid() {
		chanOf(t.tm.ch).buf = nil
	}
}

// Stop stops the timer (Go 1.23 semantics: no stale value stays in C).
func (t *TTimer) Stop() bool {
	if t.tm == nil {
		if t.realTk != nil {
			t.realTk.Stop()
			return true
		}
		return t.real.Stop()
	}
	was := t.tm.active
	t.tm.active = false
	if G != nil {
		t.drain()
	}
	return was
}

// Reset re-arms the timer.
func (t *TTimer) Reset(d time.Duration) bool {
	if t.tm == nil {
		if t.realTk != nil {
			t.realTk.Reset(d)
			return true
		}
		return t.real.Reset(d)
	}
	if G == nil {
		return false
	}
	was := t.tm.active
	t.drain()
	t.tm.active = true
	if d < 0 {
		d = 0
	}
	t.tm.deadline = G.now + d
	if t.tm.period > 0 {
		t.tm.period = d
	}
	// re-register if it was garbage-collected from the list
	found := false
	for _, x := range G.timers {
		if x == t.tm {
			found = true
			break
		}
	}
	if !found {
		G.timers = append(G.timers, t.tm)
	}
	return was
}

// TNow replaces time.Now.
func TNow() time.Time {
	if G == nil {
		return time.Now()
	}
	return base.Add(G.now)
}

// TSince replaces time.Since.
func TSince(t time.Time) time.Duration {
	if G == nil {
		return time.Since(t)
	}
	return TNow().Sub(t)
}

// TUntil replaces time.Until.
func TUntil(t time.Time) time.Duration {
	if G == nil {
		return time.Until(t)
	}
	return t.Sub(TNow())
}

// TSleep replaces time.Sleep.
func TSleep(d time.Duration) {
	if G == nil {
		time.Sleep(d)
		return
	}
	Recv(TAfter(d))
}

// VirtualNow returns the virtual clock offset of the running execution.
func VirtualNow() time.Duration {
	if G == nil {
		return 0
	}
	return G.now
}

// ArmedTimers returns the number of armed foreground timers.
func ArmedTimers() int {
	n := 0
	if G != nil {
		for _, tm := range G.timers {
			if tm.active && !tm.bg {
				n++
			}
		}
	}
	return n
}

// ---- deterministic map iteration ----

// MapKeys returns the keys of m in a canonical order while an exploration is running
// (strings and numbers by value; pointers, interfaces holding pointers, channels by the name
// registered with Name), and in Go's native order otherwise.
func MapKeys[M ~map[K]V, K comparable, V any](m M) []K {
	keys := make([]K, 0, len(m))
	for k := range m {
		keys = append(keys, k)
	}
	if G == nil || len(keys) < 2 {
		return keys
	}
	type kk struct {
		s string
		k K
	}
	ks := make([]kk, len(keys))
	for i, k := range keys {
		ks[i] = kk{keyString(reflect.ValueOf(&k).Elem()), k}
	}
	sort.SliceStable(ks, func(i, j int) bool { return ks[i].s < ks[j].s })
	for i := range ks {
		keys[i] = ks[i].k
	}
	return keys
}

func keyString(v reflect.Value) string {
	switch v.Kind() {
	case reflect.String:
		return "s:" + v.String()
	case reflect.Int, reflect.Int8, reflect.Int16, reflect.Int32, reflect.Int64:
		return fmt.Sprintf("i:%020d", uint64(v.Int())+1<<63)
	case reflect.Uint, reflect.Uint8, reflect.Uint16, reflect.Uint32, reflect.Uint64, reflect.Uintptr:
		return fmt.Sprintf("u:%020d", v.Uint())
	case reflect.Bool:
		return fmt.Sprintf("b:%v", v.Bool())
	case reflect.Interface:
		if v.IsNil() {
			return "nil"
		}
		return keyString(v.Elem())
	case reflect.Pointer, reflect.Chan, reflect.UnsafePointer:
		if n, ok := G.names[v.Pointer()]; ok {
			return "p:" + n
		}
		Fail("HARNESS: map iteration over an unnamed pointer key (%s) at %s: register it with vsched.Name", v.Type(), site())
		return fmt.Sprintf("p?:%x", v.Pointer())
	case reflect.Struct:
		var b strings.Builder
		b.WriteString("{")
		for i := 0; i < v.NumField(); i++ {
			b.WriteString(keyString(v.Field(i)))
			b.WriteString(",")
		}
		b.WriteString("}")
		return b.String()
	case reflect.Array:
		var b strings.Builder
		b.WriteString("[")
		for i := 0; i < v.Len(); i++ {
			b.WriteString(keyString(v.Index(i)))
			b.WriteString(",")
		}
		b.WriteString("]")
		return b.String()
	case reflect.Float32, reflect.Float64:
		return fmt.Sprintf("f:%v", v.Float())
	}
	Fail("HARNESS: map iteration over unsupported key kind %s at %s", v.Kind(), site())
	return "?"
}

// SortedKeys is a helper for harnesses.
func SortedKeys[K cmp.Ordered, V any](m map[K]V) []K {
	keys := make([]K, 0, len(m))
	for k := range m {
		keys = append(keys, k)
	}
	slices.Sort(keys)
	return keys
}
