package vsched

import (
	"github.com/fsnotify/fsnotify"
)

// FWatcher replaces fsnotify.Watcher in internal/confwatcher (opt-in rewrite). While an exploration runs
// no inotify instance exists: the harness feeds Events itself (LastFWatcher), after having validated its
// event model against the real fsnotify.
type FWatcher struct {
	Events chan fsnotify.Event
	Errors chan error
	real   *fsnotify.Watcher
	Added  []string
	Closed bool
}

var lastFWatcher *FWatcher

// FNewWatcher replaces fsnotify.NewWatcher.
func FNewWatcher() (*FWatcher, error) {
	if G == nil {
		r, err := fsnotify.NewWatcher()
		if err != nil {
			return nil, err
		}
		return &FWatcher{Events: r.Events, Errors: r.Errors, real: r}, nil
	}
	w := &FWatcher{Events: make(chan fsnotify.Event), Errors: make(chan error)}
	lastFWatcher = w
	return w, nil
}

// LastFWatcher returns the fake watcher created last in the running execution.
func LastFWatcher() *FWatcher { return lastFWatcher }

// Add adds a directory.
func (w *FWatcher) Add(name string) error {
	if w.real != nil {
		return w.real.Add(name)
	}
	w.Added = append(w.Added, name)
	return nil
}

// Close closes the watcher.
func (w *FWatcher) Close() error {
	if w.real != nil {
		return w.real.Close()
	}
	w.Closed = true
	return nil
}
