package vsched

import (
	"context"
	"sync"
)

// XGroup replaces golang.org/x/sync/errgroup.Group (opt-in rewrite): the same contract (first error cancels
// the derived context, Wait returns it, a panic in a function is not recovered), with the goroutines spawned
// as scheduler tasks and the wait modelled, so that an exploration controls them.
type XGroup struct {
	cancel func(error)
	wg     SWaitGroup
	once   sync.Once
	err    error
}

// XErrgroupWithContext replaces errgroup.WithContext.
func XErrgroupWithContext(ctx context.Context) (*XGroup, context.Context) {
	ctx, cancel := context.WithCancelCause(ctx)
	return &XGroup{cancel: cancel}, ctx
}

// Go calls f in a new task.
func (g *XGroup) Go(f func() error) {
	g.wg.Add(1)
	Go(func() {
		defer g.wg.Done()
		if err := f(); err != nil {
			g.once.Do(func() {
				g.err = err
				if g.cancel != nil {
					g.cancel(g.err)
				}
			})
		}
	})
}

// Wait blocks until all functions have returned, then returns the first non-nil error.
func (g *XGroup) Wait() error {
	g.wg.Wait()
	if g.cancel != nil {
		g.cancel(g.err)
	}
	return g.err
}
