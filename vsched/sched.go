// Package vsched is Engine S of /verif: a cooperative controlled scheduler with modelled
// channels, locks, condition variables, wait groups and virtual time, plus (explore.go) a
// stateless deviation-bounded depth-first explorer over its choice points.
//
// Repository sources are mechanically rewritten by /verif/goinstr so that every `go`,
// channel operation, `select`, selected `sync` type and selected `time` function goes through
// this package. When no exploration is active (G == nil) every shim falls back to the real
// Go operation ("pass-through"), so the same rewritten sources also run the repository's own
// tests: that run is the conformance check of the rewrite itself.
//
// Mounted through the build overlay at github.com/bluenviron/mediamtx/zzverif/vsched
// (non-internal so that the instrumented copy of gortsplib's ringbuffer may import it).
package vsched

import (
	"fmt"
	"os"
	"reflect"
	"runtime"
	"sort"
	"strconv"
	"strings"
	"time"
)

type opKind int

const (
	opNone opKind = iota
	opSelect      // also plain send/recv (1 case, no default)
	opLock
	opRLock
	opWGWait
	opCondWait
	opIdle
	opQuiet
	opYield
)

var opNames = [...]string{"none", "chan", "lock", "rlock", "wgwait", "condwait", "waitidle", "waitquiet", "yield"}

type selCase struct {
	send bool
	ch   reflect.Value
	val  reflect.Value
}

// Case is one select case (built by R or S).
type Case struct{ c selCase }

// Sel is the result of a Select.
type Sel struct {
	I  int
	v  reflect.Value
	ok bool
}

type op struct {
	kind   opKind
	cases  []selCase
	def    bool
	res    Sel
	mu     *SMutex
	rw     *SRWMutex
	wg     *SWaitGroup
	cond   *SCond
	site   string
	signal bool
	// RWMutex.Lock is two-phase: announce (new readers block from then on), then acquire
	announced bool
}

type task struct {
	id    int
	name  string
	wake  chan struct{}
	op    *op
	ready bool // passive side of a rendezvous / just spawned: may simply continue
	done  bool
	bg    bool
	gid   uint64
}

type vchan struct {
	ref    reflect.Value // pins the channel: no address reuse within one execution
	buf    []reflect.Value
	closed bool
	cap    int
}

type timer struct {
	id       int
	deadline time.Duration
	ch       reflect.Value // chan time.Time (cap 1), model only
	fn       func()
	period   time.Duration
	active   bool
	bg       bool
	site     string
}

type transition struct {
	t     *task
	caseI int   // for select; -1 otherwise
	peer  *task // rendezvous partner
	peerI int
	tm    *timer // timer firing
}

type point struct {
	n       int  // number of alternatives
	chosen  int
	curLive bool // alternative 0 continues the task that was running
	labels  []string
}

// Options configure one execution.
type Options struct {
	Horizon   int      // max scheduler steps (0 = 20000)
	Bg        []string // call-site substrings marking background tasks/timers (fire only when nothing else can)
	BgTimers  []string // call-site substrings marking background timers only
	Invariant func() string
	Labels    bool // record human-readable labels of the choice points (replay output)
}

type sched struct {
	tasks    []*task
	cur      *task
	back     chan *task
	chans    map[uintptr]*vchan
	timers   []*timer
	now      time.Duration
	trace    []string
	points   []point
	prefix   []int
	steps    int
	opt      Options
	failure  string
	nextTm   int
	aborting bool
	names    map[uintptr]string
	xprocs   map[int]*XCmd
}

// G is the running execution (nil = pass-through mode).
var G *sched

var debug = os.Getenv("VSCHED_DEBUG") != ""

var base = time.Date(2030, 1, 1, 0, 0, 0, 0, time.UTC)

func site() string {
	var pcs [12]uintptr
	n := runtime.Callers(2, pcs[:])
	frames := runtime.CallersFrames(pcs[:n])
	for {
		fr, more := frames.Next()
		if !strings.Contains(fr.File, "/vsched/") && fr.File != "" {
			// rewritten files are stored as <dir>/repo__internal__pkg__file.go: report "pkg/file.go:line"
			f := strings.ReplaceAll(fr.File, "__", "/")
			if i := strings.LastIndex(f, "/"); i >= 0 {
				if j := strings.LastIndex(f[:i], "/"); j >= 0 {
					f = f[j+1:]
				}
			}
			return f + ":" + strconv.Itoa(fr.Line)
		}
		if !more {
			break
		}
	}
	return "?"
}

func gid() uint64 {
	var buf [64]byte
	n := runtime.Stack(buf[:], false)
	// "goroutine 123 ["
	s := string(buf[10:n])
	i := strings.IndexByte(s, ' ')
	v, _ := strconv.ParseUint(s[:i], 10, 64)
	return v
}

type abortT struct{}

var errAbort = abortT{}

// ---- task side ----

func yield(o *op) {
	s := G
	if s.aborting {
		panic(errAbort)
	}
	t := s.cur
	if debug && t.gid != gid() {
		s.failure = "HARNESS: instrumented operation at " + site() + " called from a goroutine that is not the running task " + t.name
		panic(errAbort)
	}
	o.site = site()
	t.op = o
	s.back <- t
	<-t.wake
	if s.aborting {
		panic(errAbort)
	}
}

// Go spawns a task.
func Go(f func()) {
	s := G
	if s == nil {
		go f()
		return
	}
	if s.aborting {
		return
	}
	t := &task{id: len(s.tasks), wake: make(chan struct{}), ready: true}
	t.name = fmt.Sprintf("T%d@%s", t.id, site())
	if t.id == 0 {
		t.name = "T0@body" // the spawn site of the body is the explorer, not part of the scenario
	}
	for _, b := range s.opt.Bg {
		if strings.Contains(t.name, b) {
			t.bg = true
		}
	}
	s.tasks = append(s.tasks, t)
	go func() {
		<-t.wake
		if debug {
			t.gid = gid()
		}
		defer func() {
			if r := recover(); r != nil {
				if r != errAbort && !s.aborting && s.failure == "" {
					buf := make([]byte, 2048)
					n := runtime.Stack(buf, false)
					s.failure = fmt.Sprintf("panic in %s: %v\n%s", t.name, r, buf[:n])
				}
			}
			t.done = true
			t.op = nil
			s.back <- t
		}()
		if s.aborting {
			return
		}
		f()
	}()
}

func chanOf(ch reflect.Value) *vchan {
	p := ch.Pointer()
	vc, ok := G.chans[p]
	if !ok {
		vc = &vchan{cap: ch.Cap(), ref: ch}
		G.chans[p] = vc
	}
	return vc
}

// R builds a receive case.
func R[T any](ch <-chan T) Case { return Case{selCase{ch: reflect.ValueOf(ch)}} }

// S builds a send case.
func S[T any](ch chan<- T, v T) Case {
	return Case{selCase{send: true, ch: reflect.ValueOf(ch), val: reflect.ValueOf(&v).Elem()}}
}

// Select is the lowered form of a select statement. def: the statement has a default clause.
func Select(def bool, cases ...Case) Sel {
	if G == nil {
		return realSelect(def, cases)
	}
	o := &op{kind: opSelect, def: def}
	for _, c := range cases {
		o.cases = append(o.cases, c.c)
	}
	yield(o)
	if o.res.I == -2 {
		panic("send on closed channel")
	}
	return o.res
}

func realSelect(def bool, cases []Case) Sel {
	rc := make([]reflect.SelectCase, 0, len(cases)+1)
	for _, c := range cases {
		if c.c.send {
			rc = append(rc, reflect.SelectCase{Dir: reflect.SelectSend, Chan: c.c.ch, Send: c.c.val})
		} else {
			rc = append(rc, reflect.SelectCase{Dir: reflect.SelectRecv, Chan: c.c.ch})
		}
	}
	if def {
		rc = append(rc, reflect.SelectCase{Dir: reflect.SelectDefault})
	}
	i, v, ok := reflect.Select(rc)
	if def && i == len(cases) {
		return Sel{I: -1}
	}
	return Sel{I: i, v: v, ok: ok}
}

// Send is `ch <- v`.
func Send[T any](ch chan<- T, v T) {
	if G == nil {
		ch <- v
		return
	}
	Select(false, S(ch, v))
}

// Recv is `<-ch`.
func Recv[T any](ch <-chan T) T {
	if G == nil {
		return <-ch
	}
	s := Select(false, R(ch))
	return Got(ch, s)
}

// Recv2 is `v, ok := <-ch`.
func Recv2[T any](ch <-chan T) (T, bool) {
	if G == nil {
		v, ok := <-ch
		return v, ok
	}
	s := Select(false, R(ch))
	return Got2(ch, s)
}

// Got extracts the received value of a select case.
func Got[T any](_ <-chan T, s Sel) T {
	var z T
	if s.v.IsValid() {
		reflect.ValueOf(&z).Elem().Set(s.v)
	}
	return z
}

// Got2 extracts the received value and the ok flag.
func Got2[T any](ch <-chan T, s Sel) (T, bool) { return Got(ch, s), s.ok }

// Close is `close(ch)`: model close and real close (so un-instrumented waiters see it).
func Close[T any](ch chan<- T) {
	if G != nil && !G.aborting {
		vc := chanOf(reflect.ValueOf(ch))
		if vc.closed {
			panic("close of closed channel")
		}
		vc.closed = true
	}
	close(ch)
}

// Len is len(ch) for a channel.
func Len[T any](ch chan T) int {
	if G == nil {
		return len(ch)
	}
	return len(chanOf(reflect.ValueOf(ch)).buf)
}

// WaitIdle blocks until no task transition is enabled and no foreground timer is armed.
func WaitIdle() {
	if G == nil { // free-running pass (race detector): approximate quiescence by real time
		time.Sleep(20 * time.Millisecond)
		return
	}
	yield(&op{kind: opIdle})
}

// WaitQuiet blocks until no other task transition is enabled (timers may be armed).
func WaitQuiet() {
	if G == nil {
		time.Sleep(5 * time.Millisecond)
		return
	}
	yield(&op{kind: opQuiet})
}

// Yield is a plain scheduling point.
func Yield() {
	if G == nil {
		runtime.Gosched()
		return
	}
	yield(&op{kind: opYield})
}

// Advance lets virtual time pass (a sleep of the calling task).
func Advance(d time.Duration) { TSleep(d) }

// Log appends an observation to the trace of the running execution.
func Log(f string, a ...any) {
	if G == nil {
		return
	}
	G.trace = append(G.trace, fmt.Sprintf(f, a...))
}

// Active reports whether an exploration is running.
func Active() bool { return G != nil }

// Name registers a stable name for a pointer-like object (used to order map keys canonically).
func Name(obj any, name string) {
	if G == nil {
		return
	}
	v := reflect.ValueOf(obj)
	switch v.Kind() {
	case reflect.Pointer, reflect.Chan, reflect.Map, reflect.Func, reflect.UnsafePointer:
		G.names[v.Pointer()] = name
	}
}

// Fail records a failure of the running execution from harness code.
func Fail(f string, a ...any) {
	if G != nil && G.failure == "" {
		G.failure = fmt.Sprintf(f, a...)
	}
}

// ---- scheduler side ----

// realReady looks at the real channel: closed, or holding values put there by un-instrumented
// code (moved into the model buffer so that nothing is lost).
func realReady(ch reflect.Value, vc *vchan) bool {
	chosen, v, ok := reflect.Select([]reflect.SelectCase{{Dir: reflect.SelectRecv, Chan: ch}, {Dir: reflect.SelectDefault}})
	if chosen != 0 {
		return false
	}
	if ok {
		vc.buf = append(vc.buf, v)
		return true
	}
	vc.closed = true
	return true
}

func (s *sched) caseReady(t *task, i int) (ok bool, peer *task, peerI int) {
	c := t.op.cases[i]
	if !c.ch.IsValid() || c.ch.IsNil() {
		return false, nil, 0
	}
	vc := chanOf(c.ch)
	if c.send {
		if vc.closed {
			return true, nil, 0
		}
		if len(vc.buf) < vc.cap {
			return true, nil, 0
		}
		for _, u := range s.tasks {
			if u == t || u.done || u.op == nil || u.op.kind != opSelect || u.ready {
				continue
			}
			for j, uc := range u.op.cases {
				if !uc.send && uc.ch.IsValid() && !uc.ch.IsNil() && uc.ch.Pointer() == c.ch.Pointer() {
					return true, u, j
				}
			}
		}
		return false, nil, 0
	}
	if len(vc.buf) > 0 || vc.closed {
		return true, nil, 0
	}
	for _, u := range s.tasks {
		if u == t || u.done || u.op == nil || u.op.kind != opSelect || u.ready {
			continue
		}
		for j, uc := range u.op.cases {
			if uc.send && uc.ch.IsValid() && !uc.ch.IsNil() && uc.ch.Pointer() == c.ch.Pointer() {
				return true, u, j
			}
		}
	}
	if c.ch.Type().ChanDir()&reflect.RecvDir != 0 && realReady(c.ch, vc) {
		return true, nil, 0
	}
	return false, nil, 0
}

func (s *sched) enabled() []transition {
	var out []transition
	order := make([]*task, 0, len(s.tasks))
	if s.cur != nil && !s.cur.done {
		order = append(order, s.cur)
	}
	for _, t := range s.tasks {
		if t != s.cur && !t.done {
			order = append(order, t)
		}
	}
	var idle, quiet []*task
	for _, t := range order {
		if t.ready {
			out = append(out, transition{t: t, caseI: -1})
			continue
		}
		o := t.op
		if o == nil {
			continue
		}
		switch o.kind {
		case opYield:
			out = append(out, transition{t: t, caseI: -1})
		case opSelect:
			anyCase := false
			passive := false
			for i, c := range o.cases {
				ok, peer, pi := s.caseReady(t, i)
				if !ok {
					continue
				}
				// a rendezvous is attributed to the receiver only
				if peer != nil && c.send {
					passive = true
					continue
				}
				anyCase = true
				out = append(out, transition{t: t, caseI: i, peer: peer, peerI: pi})
			}
			if !anyCase && !passive && o.def {
				out = append(out, transition{t: t, caseI: -1})
			}
		case opLock:
			if o.mu != nil && !o.mu.held {
				out = append(out, transition{t: t, caseI: -1})
			}
			if o.rw != nil && (!o.announced || (!o.rw.writer && o.rw.readers == 0)) {
				out = append(out, transition{t: t, caseI: -1})
			}
		case opRLock:
			if !o.rw.writer && o.rw.wwaiting == 0 {
				out = append(out, transition{t: t, caseI: -1})
			}
		case opWGWait:
			if o.wg.n == 0 {
				out = append(out, transition{t: t, caseI: -1})
			}
		case opCondWait:
			if o.signal {
				out = append(out, transition{t: t, caseI: -1})
			}
		case opIdle:
			idle = append(idle, t)
		case opQuiet:
			quiet = append(quiet, t)
		}
	}
	// a select with default whose only ready cases are sender-side rendezvous: in Go the default
	// is NOT taken if a receiver is waiting; the rendezvous is offered through the receiver.
	fgTasks := false
	for _, tr := range out {
		if tr.t != nil && !tr.t.bg {
			fgTasks = true
		}
	}
	if !fgTasks && len(quiet) > 0 {
		for _, t := range quiet {
			out = append(out, transition{t: t, caseI: -1})
		}
		return out
	}
	// timers: only those with the earliest deadline may fire next (time is monotonic)
	var tms []*timer
	for _, tm := range s.timers {
		if tm.active {
			tms = append(tms, tm)
		}
	}
	sort.SliceStable(tms, func(i, j int) bool { return tms[i].deadline < tms[j].deadline })
	fgTimer := false
	if len(tms) > 0 {
		// background timers never pre-empt: they are offered only when nothing foreground exists
		var firstFg time.Duration = -1
		for _, tm := range tms {
			if !tm.bg {
				firstFg = tm.deadline
				break
			}
		}
		if firstFg >= 0 {
			fgTimer = true
			for _, tm := range tms {
				if !tm.bg && tm.deadline == firstFg {
					out = append(out, transition{tm: tm})
				}
			}
		}
	}
	if !fgTasks && !fgTimer {
		if len(idle) > 0 {
			var o2 []transition
			for _, t := range idle {
				o2 = append(o2, transition{t: t, caseI: -1})
			}
			return o2
		}
		// background work only when nothing else exists
		if len(out) == 0 {
			for _, tm := range tms {
				if tm.bg && tm.deadline == tms[0].deadline {
					out = append(out, transition{tm: tm})
				}
			}
		}
	}
	return out
}

func (s *sched) apply(tr transition) *task {
	if tr.tm != nil {
		tm := tr.tm
		if tm.deadline > s.now {
			s.now = tm.deadline
		}
		if tm.period > 0 {
			tm.deadline = s.now + tm.period
		} else {
			tm.active = false
		}
		if tm.fn != nil {
			Go(tm.fn)
			return nil
		}
		vc := chanOf(tm.ch)
		if len(vc.buf) == 0 {
			vc.buf = append(vc.buf, reflect.ValueOf(base.Add(s.now)))
		}
		return nil
	}
	t := tr.t
	if t.ready {
		t.ready = false
		return t
	}
	o := t.op
	switch o.kind {
	case opSelect:
		if tr.caseI < 0 {
			o.res = Sel{I: -1}
			return t
		}
		c := o.cases[tr.caseI]
		vc := chanOf(c.ch)
		if c.send {
			if vc.closed {
				o.res = Sel{I: -2}
				return t
			}
			vc.buf = append(vc.buf, c.val)
			o.res = Sel{I: tr.caseI}
			return t
		}
		switch {
		case len(vc.buf) > 0:
			o.res = Sel{I: tr.caseI, v: vc.buf[0], ok: true}
			vc.buf = vc.buf[1:]
		case tr.peer != nil:
			pc := tr.peer.op.cases[tr.peerI]
			o.res = Sel{I: tr.caseI, v: pc.val, ok: true}
			tr.peer.op.res = Sel{I: tr.peerI}
			tr.peer.ready = true
		default: // closed (model or real)
			o.res = Sel{I: tr.caseI, v: reflect.Zero(c.ch.Type().Elem()), ok: false}
		}
		return t
	case opLock:
		if o.mu != nil {
			o.mu.held = true
		} else {
			if o.rw.writer || o.rw.readers > 0 {
				// the writer is now waiting: later RLocks queue behind it (Go's writer preference)
				o.announced = true
				o.rw.wwaiting++
				return nil
			}
			if o.announced {
				o.rw.wwaiting--
			}
			o.rw.writer = true
		}
	case opRLock:
		o.rw.readers++
	}
	return t
}

func (s *sched) label(tr transition) string {
	if tr.tm != nil {
		return fmt.Sprintf("timer#%d@%s(+%v)", tr.tm.id, tr.tm.site, tr.tm.deadline)
	}
	t := tr.t
	if t.ready || t.op == nil {
		return t.name + ":continue"
	}
	l := fmt.Sprintf("%s:%s@%s", t.name, opNames[t.op.kind], t.op.site)
	if t.op.kind == opSelect && tr.caseI >= 0 {
		l += fmt.Sprintf("#%d", tr.caseI)
		if tr.peer != nil {
			l += "<-" + tr.peer.name
		}
	}
	return l
}

func (s *sched) describeBlocked() string {
	var b strings.Builder
	for _, t := range s.tasks {
		if t.done || t.bg {
			continue
		}
		fmt.Fprintf(&b, " %s", t.name)
		if t.op != nil {
			fmt.Fprintf(&b, "[%s@%s]", opNames[t.op.kind], t.op.site)
		}
	}
	return b.String()
}

// Outcome is what one execution produced.
type Outcome struct {
	Trace    []string
	Failure  string // "" | "deadlock: ..." | "panic ..." | "horizon" | harness Fail text
	Choices  []int
	Alts     []int  // number of alternatives at each point
	CurLive  []bool // whether alternative 0 continued the running task
	Labels   [][]string
	Steps    int
	Tasks    int
	VirtualT time.Duration
}

// RunOnce executes body as task 0 under the scheduler: the choices of prefix are replayed, every
// later choice is alternative 0. The execution ends when task 0 returns (remaining tasks are
// aborted), on deadlock, on failure, or at the horizon.
func RunOnce(prefix []int, body func(), opt Options) *Outcome {
	if opt.Horizon == 0 {
		opt.Horizon = 20000
	}
	s := &sched{back: make(chan *task), chans: map[uintptr]*vchan{}, prefix: prefix, opt: opt, names: map[uintptr]string{}}
	G = s
	Go(body)
	for {
		en := s.enabled()
		if len(en) == 0 {
			if s.failure == "" {
				if b := s.describeBlocked(); b != "" {
					s.failure = "deadlock:" + b
				}
			}
			break
		}
		choice := 0
		if len(en) > 1 {
			k := len(s.points)
			if k < len(prefix) {
				choice = prefix[k]
				if choice >= len(en) {
					s.failure = fmt.Sprintf("HARNESS: replay divergence at point %d: choice %d of %d", k, choice, len(en))
					break
				}
			}
			p := point{n: len(en), chosen: choice, curLive: s.cur != nil && en[0].t == s.cur}
			if opt.Labels {
				for _, tr := range en {
					p.labels = append(p.labels, s.label(tr))
				}
			}
			s.points = append(s.points, p)
		}
		if debug {
			fmt.Fprintf(os.Stderr, "step %d now=%v alts=%d: %s\n", s.steps, s.now, len(en), s.label(en[choice]))
		}
		t := s.apply(en[choice])
		s.steps++
		if s.steps > opt.Horizon {
			s.failure = "horizon"
			break
		}
		if t != nil {
			s.cur = t
			t.wake <- struct{}{}
			<-s.back
		}
		if s.failure != "" {
			break
		}
		if opt.Invariant != nil {
			if msg := opt.Invariant(); msg != "" {
				s.failure = "invariant: " + msg
				break
			}
		}
		if s.tasks[0].done {
			break
		}
	}
	if len(prefix) > len(s.points) && s.failure == "" {
		s.failure = fmt.Sprintf("HARNESS: replay divergence: prefix has %d choices, execution only %d points", len(prefix), len(s.points))
	}
	// abort whatever is still parked so that no goroutine leaks into the next execution
	s.aborting = true
	for _, t := range s.tasks {
		if !t.done {
			t.wake <- struct{}{}
			<-s.back
		}
	}
	o := &Outcome{Trace: s.trace, Failure: s.failure, Steps: s.steps, Tasks: len(s.tasks), VirtualT: s.now}
	for _, p := range s.points {
		o.Choices = append(o.Choices, p.chosen)
		o.Alts = append(o.Alts, p.n)
		o.CurLive = append(o.CurLive, p.curLive)
		if opt.Labels {
			o.Labels = append(o.Labels, p.labels)
		}
	}
	G = nil
	return o
}
