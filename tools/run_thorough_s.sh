#!/bin/bash
# runs the thorough tier of the Engine-S checks one after the other and prints verdict lines + wall time
cd "$(dirname "$0")/.."
for c in C03 C15 C16 C17 C18 C19 C20 C40 C38; do
  t0=$(date +%s)
  out=$(tools/check $c thorough -evidence /tmp/thorough-$c.json 2>&1); rc=$?
  echo "== $c thorough exit=$rc wall=$(( $(date +%s) - t0 ))s"
  echo "$out" | grep -E "VIOLATION|HARNESS|KNOWN|^\s+key=|^$c |bound" | cut -c1-220
done
