#!/bin/bash
# Runs every registered check's quick tier on /repo (unchanged tree), one after the other, and prints one line per check.
# Evidence files are rewritten; used to refresh evidence/ before committing.
cd "$(dirname "$0")/.."
for f in checks.d/C??.json; do c=$(basename $f .json)
  t0=$(date +%s)
  out=$(tools/check $c quick 2>&1); rc=$?
  echo "$c exit=$rc wall=$(( $(date +%s) - t0 ))s $(echo "$out" | grep -E "^$c quick" | tail -1 | cut -c1-160)"
  echo "$out" | grep -E "VIOLATION|HARNESS-ERROR|KNOWN-FINDING" | cut -c1-200
done
