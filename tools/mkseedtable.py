#!/usr/bin/env python3
"""Generates SEEDED.md from seeded/*/meta.json (independently written property-breaking changes, confirmed by
tools/seedcheck, and the verdict of the registered check on each)."""
import json, glob, os
rows = []
for d in sorted(glob.glob("/verif/seeded/*")):
    try:
        m = json.load(open(os.path.join(d, "meta.json")))
    except Exception:
        continue
    v = m.get("coordinator_verification", {})
    q, t = v.get("check_quick", {}), v.get("check_thorough", {})
    verdict = "MISSED"
    if q.get("exit") == 1:
        verdict = "caught (quick, %ss)" % q.get("wall_s")
    elif t.get("exit") == 1:
        verdict = "caught (thorough only, %ss)" % t.get("wall_s")
    elif q.get("exit") == 2 or t.get("exit") == 2:
        verdict = "MISSED (harness error)"
    if not verdict.startswith("caught") and m.get("caught_by_other_check"):
        verdict = "not by its own check; caught by " + m["caught_by_other_check"]
    keys = []
    for l in (q.get("lines", []) + t.get("lines", [])):
        l = l.strip()
        if l.startswith("key="):
            keys.append(l.split()[0][4:])
    summ = (m.get("summary") or "").replace("\n", " ").replace("|", "/")
    needs = (m.get("needs") or "").replace("\n", " ").replace("|", "/")
    rows.append((os.path.basename(d), ", ".join(v.get("files_touched", [])), summ[:260], needs[:200], verdict, ", ".join(keys[:3])))
with open("/verif/SEEDED.md", "w") as f:
    f.write("# Independently seeded property-breaking changes\n\n"
            "Each change was written by a fresh sub-agent that saw only the property text and its own scratch worktree "
            "(nothing from /verif), then confirmed by the coordinator with `tools/seedcheck` (applies to a scratch worktree, "
            "builds, the touched packages' own tests pass, the demonstration passes without and fails with the change) and "
            "run against the registered check. `seeded/<id>/` holds patch.diff, the demonstration and meta.json.\n\n"
            "| seed | files | what it does | needs | check verdict | violation classes |\n|---|---|---|---|---|---|\n")
    for r in rows:
        f.write("| %s | %s | %s | %s | %s | %s |\n" % r)
    caught = sum(1 for r in rows if r[4].startswith("caught"))
    other = sum(1 for r in rows if r[4].startswith("not by its own"))
    f.write("\n%d confirmed seeds, %d caught by the registered check of their property, %d more by the check of another property.\n" % (len(rows), caught, other))
print(len(rows), "seeds")
