# sourced by every tool: offline Go 1.26.8 toolchain
export PATH=/opt/veriftools/go1.26.8/bin:$PATH
export GOTOOLCHAIN=local GOFLAGS=-mod=mod GOPROXY=off GOSUMDB=off
export VERIF_ROOT=/verif
export REPO=${REPO:-/repo}
