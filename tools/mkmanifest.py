#!/usr/bin/env python3
"""Regenerates MANIFEST.json from checks.json (single source of truth) and validates it."""
import json, sys, os
V = "/verif"
reg = {n[:-5]: json.load(open(V + "/checks.d/" + n)) for n in sorted(os.listdir(V + "/checks.d")) if n.endswith(".json")}
props = [json.loads(l) for l in open(V + "/properties.jsonl")]
ids = [p["id"] for p in props]
na_reasons = json.load(open(V + "/not_applicable.json")) if os.path.exists(V + "/not_applicable.json") else {}
checks = []
for pid in ids:
    if pid not in reg:
        continue
    s = reg[pid]
    c = {
        "property_id": pid,
        "quick_cmd": "tools/check %s quick" % pid,
        "thorough_cmd": "tools/check %s thorough" % pid,
        "evidence_file": "/verif/evidence/%s.json" % pid,
        "replay_cmd_template": "tools/check %s quick --replay {path}" % pid,
        "engine": {"B": "bex", "X": "xstate", "S": "vsched", "F": "crashfs"}.get(s.get("engine"), s.get("engine", "")),
        "level_claimed": {"category": s["level"], "text": s["text"], "design_ref": s.get("design_ref", "DESIGN.md §3 " + pid)},
        "level_note": s["note"],
        "technique": s["technique"],
    }
    checks.append(c)
na = []
for pid in ids:
    if pid not in reg:
        na.append({"property_id": pid, "reason": na_reasons.get(pid, "check not built yet in this session (planned, see DESIGN.md §3); not claimed")})
engines = [
    {"name": "bex", "path": "harness/ (Engine B harnesses) + harness/vcommon", "kind_free_text": "bounded-exhaustive enumeration of inputs/configurations/short operation sequences over a stated finite alphabet, every case run on the real code and compared with a reference model (small-scope model checking of sequential code)", "serves_properties": [p for p in ids if p in reg and reg[p].get("engine") == "B"]},
    {"name": "xstate", "path": "harness/ (Engine X harnesses)", "kind_free_text": "explicit-state breadth-first search over operation histories of real objects (fresh object + replay), canonical state keys, invariant in every state, differential oracle", "serves_properties": [p for p in ids if p in reg and reg[p].get("engine") == "X"]},
    {"name": "vsched", "path": "vsched/ + goinstr/", "kind_free_text": "controlled cooperative scheduler with virtual time over mechanically instrumented repository sources; stateless deviation-bounded DFS over all schedules/select choices/timer firings", "serves_properties": [p for p in ids if p in reg and reg[p].get("engine") == "S"]},
    {"name": "crashfs", "path": "harness/ (Engine F harnesses)", "kind_free_text": "write-log capture on the real recorder and enumeration of every crash prefix / torn write / dropped unsynced write, each state fed to the real playback code", "serves_properties": [p for p in ids if p in reg and reg[p].get("engine") == "F"]},
]
m = {
    "version": 1,
    "setup_cmd": "tools/setup",
    "hooks": {
        "guard": "verif",
        "enable": "go build -tags verif -overlay <generated> (all verification code is ADDED through the overlay by tools/vcheck.py; /repo needs no hook commits)",
        "baseline_off_cmd": json.load(open("/root/.vp/BASELINE.json"))["cmd"],
        "source_commits": [],
        "add_only": True,
    },
    "engines": engines,
    "checks": checks,
    "not_applicable": na,
    "notes": "Every check is `tools/check <ID> <tier>`: it regenerates the overlay, rebuilds the harness from /repo's working tree with go1.26.8 offline, runs it, writes evidence/<ID>.json. Known findings: known_findings.txt.",
}
json.dump(m, open(V + "/MANIFEST.json", "w"), indent=1)
try:
    import jsonschema
    jsonschema.validate(m, json.load(open("/root/.vp/MANIFEST.schema.json")))
    print("MANIFEST valid: %d checks, %d not_applicable" % (len(checks), len(na)))
except ImportError:
    print("jsonschema not importable here; wrote MANIFEST (%d checks)" % len(checks))
