"""Engine S build preparation (called by vcheck.py for checks with engine S or "instr": true).

Adds to the overlay: the vsched shim package (at the non-internal virtual path zzverif/vsched), the
vexplore package, and goinstr-rewritten copies of the packages listed in spec["instr_pkgs"]
(default: COMMON). The rewrite is redone from the current working tree on every run.
gortsplib's ringbuffer (a dependency used by stream.Reader) is instrumented too: Go refuses
overlays below GOMODCACHE, so the module is copied once to .build/mods and selected with
-modfile=.build/<tag>/go.mod (= the repository's go.mod + one replace).
"""
import json, os, shutil, subprocess, hashlib

COMMON = [
    "./internal/core", "./internal/stream", "./internal/forward", "./internal/staticsources",
    "./internal/recorder", "./internal/externalcmd", "./internal/auth", "./internal/confwatcher",
    "./internal/recordcleaner", "./internal/counterdumper", "./internal/errordumper",
    "github.com/bluenviron/gortsplib/v5/pkg/ringbuffer",
]

GO = "/opt/veriftools/go1.26.8/bin/go"

# per-package opt-in selector rewrites: no process is spawned by internal/externalcmd under the scheduler
DEFAULT_EXTRA = ("github.com/bluenviron/mediamtx/internal/externalcmd:"
                 "os/exec.Command=XCommand,os/exec.Cmd=XCmd,syscall.Kill=XKill;"
                 "github.com/bluenviron/mediamtx/internal/confwatcher:"
                 "github.com/fsnotify/fsnotify.NewWatcher=FNewWatcher,github.com/fsnotify/fsnotify.Watcher=FWatcher")


def add_dir(rep, src, dst):
    for name in sorted(os.listdir(src)):
        p = os.path.join(src, name)
        if os.path.isfile(p) and name.endswith(".go"):
            rep[os.path.join(dst, name)] = p


def newer(src_dir, target):
    if not os.path.exists(target):
        return True
    t = os.path.getmtime(target)
    for n in os.listdir(src_dir):
        if os.path.getmtime(os.path.join(src_dir, n)) > t:
            return True
    return False


def prepare(rep, spec, REPO, VERIF, BUILD, ENV, die):
    tag = hashlib.sha1(REPO.encode()).hexdigest()[:6] if REPO != "/repo" else "main"
    add_dir(rep, os.path.join(VERIF, "vsched"), os.path.join(REPO, "zzverif/vsched"))
    add_dir(rep, os.path.join(VERIF, "harness/vexplore"), os.path.join(REPO, "internal/zzverif/vexplore"))

    # 1. instrumenter binary
    gi = os.path.join(BUILD, "bin", "goinstr")
    if newer(os.path.join(VERIF, "goinstr"), gi):
        p = subprocess.run([GO, "build", "-o", gi, "."], cwd=os.path.join(VERIF, "goinstr"), env=ENV,
                           stdout=subprocess.PIPE, stderr=subprocess.STDOUT, text=True)
        if p.returncode != 0:
            print(p.stdout)
            die("cannot build goinstr")

    # 2. module copy of gortsplib + alternate go.mod
    gomod = open(os.path.join(REPO, "go.mod")).read()
    ver = None
    for line in gomod.splitlines():
        parts = line.split()
        if len(parts) >= 2 and parts[0] == "github.com/bluenviron/gortsplib/v5":
            ver = parts[1]
    if ver is None:
        die("gortsplib/v5 not found in go.mod")
    moddir = os.path.join(BUILD, "mods", "gortsplib-v5@" + ver)
    if not os.path.isdir(moddir):
        src = os.path.join(os.path.expanduser("~/go/pkg/mod/github.com/bluenviron/gortsplib"), "v5@" + ver)
        if not os.path.isdir(src):
            die("module cache has no " + src)
        tmp = moddir + ".tmp%d" % os.getpid()
        shutil.copytree(src, tmp)
        for root, dirs, files in os.walk(tmp):
            os.chmod(root, 0o755)
            for f in files:
                os.chmod(os.path.join(root, f), 0o644)
        try:
            os.rename(tmp, moddir)
        except OSError:
            shutil.rmtree(tmp, ignore_errors=True)
    wdir = os.path.join(BUILD, "s-" + tag)
    os.makedirs(wdir, exist_ok=True)
    modfile = os.path.join(wdir, "go.mod")
    new = gomod + "\nreplace github.com/bluenviron/gortsplib/v5 => %s\n" % moddir
    if not os.path.exists(modfile) or open(modfile).read() != new:
        open(modfile, "w").write(new)
    shutil.copyfile(os.path.join(REPO, "go.sum"), os.path.join(wdir, "go.sum"))

    # 3. rewrite
    pkgs = spec.get("instr_pkgs", COMMON)
    outdir = os.path.join(wdir, "instr-" + spec["harness"])
    os.makedirs(outdir, exist_ok=True)
    ov_in = os.path.join(outdir, "in.json")
    json.dump({"Replace": rep}, open(ov_in, "w"))
    cmd = [gi, "-dir", REPO, "-overlay", ov_in, "-out", outdir, "-modfile", modfile]
    extra = spec.get("instr_extra", DEFAULT_EXTRA)
    if extra:
        cmd += ["-extra", extra]
    if spec.get("instr_notime"):
        cmd += ["-notime", ",".join(spec["instr_notime"])]
    cmd += pkgs
    p = subprocess.run(cmd, cwd=REPO, env=ENV, stdout=subprocess.PIPE, stderr=subprocess.STDOUT, text=True)
    if p.returncode != 0:
        print(p.stdout[-6000:])
        die("goinstr failed (a construct in the tree cannot be rewritten, or the tree does not type-check)")
    ov = json.load(open(os.path.join(outdir, "overlay.json")))
    rep.clear()
    rep.update(ov["Replace"])
    return ["-modfile=" + modfile]
