#!/usr/bin/env python3
"""tools/check <ID> [quick|thorough] [-- extra harness args]

Builds the harness of property <ID> from the *current working tree* of $REPO (default
/repo) through a `go build -overlay` that only ADDS files (harness main packages, export
shims, the two generated embed files the repository lacks, and -- for Engine S -- copies of
repository files mechanically rewritten by goinstr), runs it, and propagates its verdict:
  exit 0  property held on everything explored (KNOWN-FINDING lines possible)
  exit 1  VIOLATION property=<ID> replay=<path>
  exit 2  HARNESS-ERROR (build failure, shim no longer applies, nondeterminism ...)
"""
import json, os, subprocess, sys, time, shutil, hashlib

VERIF = os.environ.get("VERIF_ROOT", "/verif")
REPO = os.environ.get("REPO", "/repo")
BUILD = os.path.join(VERIF, ".build")
GO = "/opt/veriftools/go1.26.8/bin/go"

ENV = dict(os.environ)
ENV.update({
    "PATH": "/opt/veriftools/go1.26.8/bin:" + ENV.get("PATH", ""),
    "GOTOOLCHAIN": "local", "GOFLAGS": "-mod=mod", "GOPROXY": "off", "GOSUMDB": "off",
})


def die(msg, code=2):
    print("HARNESS-ERROR " + msg)
    sys.exit(code)


def registry():
    reg = {}
    d = os.path.join(VERIF, "checks.d")
    for name in sorted(os.listdir(d)):
        if name.endswith(".json"):
            with open(os.path.join(d, name)) as f:
                reg[name[:-5]] = json.load(f)
    return reg


def add_dir(replace, src_dir, dst_dir):
    """map every regular file of src_dir (non-recursive) to dst_dir."""
    for name in sorted(os.listdir(src_dir)):
        p = os.path.join(src_dir, name)
        if os.path.isfile(p) and not name.endswith("~"):
            replace[os.path.join(dst_dir, name)] = p


def base_overlay(harness, shims):
    rep = {}
    rep[os.path.join(REPO, "internal/core/VERSION")] = os.path.join(VERIF, "stubs/VERSION")
    rep[os.path.join(REPO, "internal/servers/hls/hls.min.js")] = os.path.join(VERIF, "stubs/hls.min.js")
    add_dir(rep, os.path.join(VERIF, "harness/vcommon"), os.path.join(REPO, "internal/zzverif/vcommon"))
    hdir = os.path.join(VERIF, "harness", harness)
    if not os.path.isdir(hdir):
        die("no harness dir " + hdir)
    add_dir(rep, hdir, os.path.join(REPO, "internal/zzverif", harness))
    # helper packages shared by harnesses: harness/<x>lib -> internal/zzverif/<x>lib
    for extra in sorted(os.listdir(os.path.join(VERIF, "harness"))):
        if extra.endswith("lib"):
            add_dir(rep, os.path.join(VERIF, "harness", extra), os.path.join(REPO, "internal/zzverif", extra))
    for s in shims:
        # a shim is one file: shims/<package path>/zz_verif_<x>.go, mounted into that package
        sp = os.path.join(VERIF, "shims", s)
        if not os.path.isfile(sp):
            die("no shim file " + sp)
        rep[os.path.join(REPO, s)] = sp
    return rep


def build(cid, spec):
    harness = spec["harness"]
    os.makedirs(os.path.join(BUILD, "bin"), exist_ok=True)
    os.makedirs(os.path.join(BUILD, "ov"), exist_ok=True)
    rep = base_overlay(harness, spec.get("shims", []))
    extra_flags = []
    if spec.get("engine") == "S" or spec.get("instr"):
        sys.path.insert(0, os.path.join(VERIF, "tools"))
        import instr  # noqa
        extra_flags = instr.prepare(rep, spec, REPO, VERIF, BUILD, ENV, die)
    tag = hashlib.sha1(REPO.encode()).hexdigest()[:6] if REPO != "/repo" else "main"
    ov = os.path.join(BUILD, "ov", "%s-%s.json" % (cid, tag))
    with open(ov, "w") as f:
        json.dump({"Replace": rep}, f, indent=0)
    out = os.path.join(BUILD, "bin", "%s-%s" % (harness, tag))
    cmd = [GO, "build", "-tags", "verif", "-overlay", ov] + extra_flags + spec.get("build_flags", []) + [
        "-o", out, "./internal/zzverif/" + harness]
    t0 = time.time()
    p = subprocess.run(cmd, cwd=REPO, env=ENV, stdout=subprocess.PIPE, stderr=subprocess.STDOUT, text=True)
    if p.returncode != 0:
        print(p.stdout[-6000:])
        die("build of harness %s failed (the tree does not compile with the verification shims; "
            "an identifier a shim needs may have been renamed)" % harness)
    sys.stderr.write("[vcheck] built %s in %.1fs\n" % (harness, time.time() - t0))
    if spec.get("race_pass"):
        # the same harness bodies, UN-instrumented, with the race detector (free-running pass)
        rep2 = base_overlay(harness, spec.get("shims", []))
        add_dir(rep2, os.path.join(VERIF, "vsched"), os.path.join(REPO, "zzverif/vsched"))
        add_dir(rep2, os.path.join(VERIF, "harness/vexplore"), os.path.join(REPO, "internal/zzverif/vexplore"))
        ov2 = os.path.join(BUILD, "ov", "%s-race-%s.json" % (cid, tag))
        with open(ov2, "w") as f:
            json.dump({"Replace": rep2}, f, indent=0)
        out2 = out + "-race"
        t0 = time.time()
        p = subprocess.run([GO, "build", "-race", "-tags", "verif", "-overlay", ov2, "-o", out2, "./internal/zzverif/" + harness],
                           cwd=REPO, env=ENV, stdout=subprocess.PIPE, stderr=subprocess.STDOUT, text=True)
        if p.returncode != 0:
            print(p.stdout[-6000:])
            die("race build of harness %s failed" % harness)
        sys.stderr.write("[vcheck] built %s (-race) in %.1fs\n" % (harness, time.time() - t0))
        os.environ["VERIF_RACE_BIN"] = out2
        ENV["VERIF_RACE_BIN"] = out2
    return out, ov


def main():
    args = sys.argv[1:]
    if not args:
        die("usage: check <ID> [quick|thorough] [--replay file] [-- args]")
    if args[0] == "--build-all":
        # setup: warm the build cache; harness build failures are reported but do not abort the others
        from concurrent.futures import ThreadPoolExecutor
        reg = registry()
        seen = {}
        for cid, spec in reg.items():
            seen.setdefault(spec["harness"], (cid, spec))
        bad = 0
        for h, (cid, spec) in seen.items():
            try:
                build(cid, spec)
            except SystemExit:
                bad += 1
        sys.exit(1 if bad else 0)
    if args[0] == "--build-only":
        reg = registry()
        build(args[1], reg[args[1]])
        sys.exit(0)
    cid = args[0]
    tier = "quick"
    rest = []
    i = 1
    while i < len(args):
        a = args[i]
        if a in ("quick", "thorough"):
            tier = a
        elif a == "--":
            rest += args[i + 1:]
            break
        else:
            rest.append(a)
        i += 1
    reg = registry()
    if cid not in reg:
        die("unknown check " + cid)
    spec = reg[cid]
    binp, ov = build(cid, spec)
    # a run against another tree (mutation / seed runs) must not leave its counterexamples among the replays of /repo
    if REPO != "/repo" and "-replays" not in rest:
        rdir = os.path.join("/tmp", "verif-replays-" + hashlib.sha1(REPO.encode()).hexdigest()[:6])
        os.makedirs(rdir, exist_ok=True)
        rest = rest + ["-replays", rdir]
    hargs = ["-tier", tier] + spec.get("args", []) + spec.get(tier + "_args", []) + rest
    env = dict(ENV)
    env["VERIF_OVERLAY"] = ov
    env["VERIF_REPO"] = REPO
    env["VERIF_CHECK_ID"] = cid
    os.makedirs(os.path.join(VERIF, "evidence"), exist_ok=True)
    p = subprocess.run([binp] + hargs, cwd=VERIF, env=env)
    rc = p.returncode
    if rc not in (0, 1, 2):
        print("HARNESS-ERROR harness %s exited with status %d" % (spec["harness"], rc))
        rc = 2
    # chained harnesses: further parts of the same property's check (e.g. the end-to-end protocol layer);
    # each writes its own evidence, which is merged into the property's evidence file
    main_ev = None
    for a in rest:
        pass
    ev_path = os.path.join(VERIF, "evidence", cid + ".json")
    if "-evidence" in rest:
        ev_path = rest[rest.index("-evidence") + 1]
    for sub in spec.get("also", []):
        sspec = reg[sub]
        sbin, sov = build(sub, sspec)
        sub_ev = ev_path + "." + sub + ".part"
        sargs = ["-tier", tier] + [x for x in sspec.get("args", []) if x not in ("-evidence",) and not x.endswith(sub + ".json")] + \
            sspec.get(tier + "_args", []) + ["-evidence", sub_ev] + [x for x in rest if x != "-evidence" and x != ev_path]
        senv = dict(env)
        senv["VERIF_OVERLAY"] = sov
        p2 = subprocess.run([sbin] + sargs, cwd=VERIF, env=senv)
        rc2 = p2.returncode if p2.returncode in (0, 1, 2) else 2
        try:
            a = json.load(open(ev_path))
            b = json.load(open(sub_ev))
            ca, cb = a["coverage"], b["coverage"]
            ca["chained_" + sub] = cb
            for k in ("evaluations", "distinct_nontrivial"):
                ca[k] = ca.get(k, 0) + cb.get(k, 0)
            ca["exhaustive"] = bool(ca.get("exhaustive")) and bool(cb.get("exhaustive"))
            ca["rule"] = ca.get("rule", "") + " || chained part " + sub + ": " + cb.get("rule", "")
            a["violations"] = a.get("violations", 0) + b.get("violations", 0)
            a["wall_s"] = a.get("wall_s", 0) + b.get("wall_s", 0)
            a["assumptions"] = a.get("assumptions", []) + b.get("assumptions", [])
            json.dump(a, open(ev_path, "w"), indent=1)
            os.remove(sub_ev)
        except Exception as e:  # noqa
            print("HARNESS-ERROR cannot merge evidence of chained part %s: %s" % (sub, e))
            rc2 = 2
        if rc2 == 1 or rc == 1:
            rc = 1
        elif rc2 == 2:
            rc = 2
    sys.exit(rc)


if __name__ == "__main__":
    main()
