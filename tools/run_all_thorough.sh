#!/bin/bash
# Runs every registered check's thorough tier (evidence to a scratch file) and prints one line per check.
cd /verif
for f in checks.d/C??.json; do c=$(basename $f .json)
  t0=$(date +%s)
  out=$(tools/check $c thorough -evidence /tmp/thorough-$c.json 2>&1); rc=$?
  echo "$c exit=$rc wall=$(( $(date +%s) - t0 ))s $(echo "$out" | grep -E "^$c thorough" | tail -1 | cut -c1-160)"
  echo "$out" | grep -E "VIOLATION|HARNESS-ERROR" | cut -c1-200
done
